"""C08 — ontology <-> XML round trip is lossless and preserves schema validity."""
import glob, io, json, os, sys
from lxml import etree
from common.core import Check, C, Z, Nat, coq, run_cases, Raw, Some, REPO
from translate import c08 as T1
import ontolib as OL
import c08lib as L

PID = 'C08'
ANCHORS = ['edxml/ontology/ontology.py', 'edxml/ontology/object_type.py', 'edxml/ontology/concept.py', 'edxml/ontology/event_source.py',
           'edxml/ontology/event_type.py', 'edxml/ontology/event_property.py', 'edxml/ontology/event_property_concept.py',
           'edxml/ontology/event_property_relation.py', 'edxml/ontology/event_type_parent.py', 'edxml/ontology/event_type_attachment.py', 'edxml/writer.py']


def sdk_parse(onto_el):
    """Ontology.update(element) + validate(); returns (ontology, None) or (None, error name)"""
    from edxml.ontology import Ontology
    from edxml.error import EDXMLValidationError
    try:
        o = Ontology()
        o.update(onto_el)
        o.validate()
        return o, None
    except EDXMLValidationError as e:
        return None, 'rejected:' + str(e)[:120]
    except Exception as e:
        return None, 'foreign:%s: %s' % (type(e).__name__, str(e)[:160])


def sdk_write(o):
    """a validating writer; returns (bytes, None) or (None, error)"""
    from edxml import EDXMLWriter
    from edxml.error import EDXMLValidationError
    out = io.BytesIO()
    try:
        w = EDXMLWriter(out, validate=True)
        w.add_ontology(o)
        w.close()
        return out.getvalue(), None
    except EDXMLValidationError as e:
        return None, 'rejected:' + ' '.join(str(e).split())[-300:]
    except Exception as e:
        return None, 'foreign:%s: %s' % (type(e).__name__, str(e)[:160])


def onto_of(doc_bytes):
    root = etree.fromstring(doc_bytes)
    return root, next(c for c in root if isinstance(c.tag, str) and c.tag.endswith('ontology'))


def corpus_ontologies():
    """every <ontology> element found in the repository's own test corpus / examples"""
    out = []
    for path in sorted(glob.glob(os.path.join(REPO, '**', '*.edxml'), recursive=True)):
        try:
            root = etree.parse(path).getroot()
        except Exception:
            continue
        for c in root:
            if isinstance(c.tag, str) and c.tag.endswith('ontology'):
                out.append((os.path.relpath(path, REPO), etree.tostring(c)))
    return out


def round_trip(ck, schema, label, doc, inp):
    """the property on one document; returns the SDK ontology or None"""
    def fail(sig, observed):
        ck.oracle_failures.append({'signature': sig, 'input': inp, 'observed': observed})
    root, onto_el = onto_of(doc)
    if not schema.validate(root):
        ck.dist('input:not-schema-valid')
        return 'not-schema-valid', str(schema.error_log.last_error)[:200]
    o, err = sdk_parse(onto_el)
    ck.cov['evaluations'] += 1
    if o is None:
        if err.startswith('foreign:'):
            fail('parse-raises/%s' % err.split(':')[1], err)
            return None, None
        ck.dist('input:rejected-by-sdk-validation')
        return 'sdk-rejects', err
    ck.dist('input:accepted')
    out, err = sdk_write(o)
    if out is None:
        try:
            why = L.explain_invalid(schema, root, onto_el, o.generate_xml())
        except Exception as e:
            why = ['(no explanation: %s)' % type(e).__name__]
        fail('serialised-form-not-schema-valid/%s' % label(' '.join(why) or err),
             'schema-valid input, parsed and validated by the SDK; the validating writer rejects it. Changes that break the schema: %s' % (why or err))
        return None, None
    root2, onto2 = onto_of(out)
    if not schema.validate(root2):
        fail('serialised-form-not-schema-valid/%s' % label(str(schema.error_log.last_error)), str(schema.error_log.last_error)[:300])
        return None, None
    d = L.diff(L.semantic(onto_el), L.semantic(onto2))
    if d:
        fail('definition-changed/%s' % label(d), d)
        return None, None
    o2, err = sdk_parse(onto2)
    if o2 is None:
        fail('own-output-rejected', err)
        return None, None
    out2, err = sdk_write(o2)
    if out2 != out:
        fail('second-cycle-not-identical', 'serialise(parse(serialise(x))) differs from serialise(x)' if out2 else err)
        return None, None
    try:
        same = (o2 == o) and not (o2 != o)
    except Exception as e:
        same = 'exception %s' % type(e).__name__
    if same is not True:
        fail('parsed-back-ontology-not-equal', 'Ontology.__eq__ gives %r' % same)
    return o, None


def label_of(text):
    """coarse label for a signature: the attribute or element the message is about"""
    import re
    m = re.search(r"(attr-display-name-[a-z]+|prefix-radix|unit-[a-z]+|story|summary|predicate|confidence|compress|similar|merge|date-acquired|regex-[a-z]+|xref|"
                  r"fuzzy-matching|display-name-[a-z]+|description|media-type|encoding|property-map|version|cnp|attr-extension)", text or '')
    return m.group(1) if m else 'other'


def api_built(rng):
    """an ontology built through the public API with random (valid) parameters"""
    from edxml.ontology import Ontology, DataType
    o = Ontology()
    ot = o.create_object_type('o', data_type='string:0:mc:u')
    nt = o.create_object_type('n', data_type='number:int')
    if rng.random() < 0.6:
        nt.set_unit('meter', 'm')
        if rng.random() < 0.7:
            nt.set_prefix_radix(rng.choice([2, 10, 60]))
    if rng.random() < 0.5:
        ot.compress(rng.random() < 0.7)
    if rng.random() < 0.5:
        ot.set_regex_hard('[a-z]+')
    if rng.random() < 0.5:
        ot.set_fuzzy_matching_attribute(rng.choice(['phonetic', 'substring:x', '[2:]']))
    if rng.random() < 0.4:
        ot.set_xref('http://x/')
    o.create_object_type('when', data_type='datetime')
    c = o.create_concept('c')
    c2 = o.create_concept('c.x')
    o.create_event_source('/s/')
    et = o.create_event_type('ta').set_summary_template('s [[p]]').set_story_template(rng.choice(['story [[p]]', 'a\nb']))
    p = et.create_property('p', 'o').make_hashed()
    q = et.create_property('q', 'n').make_optional()
    if rng.random() < 0.5:
        q.make_multivalued()
    if rng.random() < 0.5:
        q.merge_add() if q.is_multi_valued() else q.merge_max()
    if rng.random() < 0.5:
        q.hint_similar('alike')
    a = p.identifies('c', confidence=rng.randint(1, 10), cnp=rng.choice([0, 128, 255]))
    k = rng.randrange(3)
    if k == 1:
        a.set_attribute('ext')
    elif k == 2:
        a.set_attribute('ext', 'extension', 'extensions')
    q.identifies('c.x', 5)
    if rng.random() < 0.6:
        p.relate_inter('knows', 'q').because('[[p]] knows [[q]]')
    if rng.random() < 0.4:
        p.relate_name('q') if hasattr(p, 'relate_name') else None
    if rng.random() < 0.5:
        et.create_attachment('doc').set_media_type('text/html') if rng.random() < 0.5 else et.create_attachment('bin').set_encoding_base64()
        if rng.random() < 0.5:
            # more attachments, created in an order that is not the alphabetical one
            for name in rng.sample(['zz', 'aa', 'mm'], rng.randint(1, 3)):
                et.create_attachment(name)
    if rng.random() < 0.4:
        t0 = et.create_property('t0', 'when').make_optional()
        et.set_timespan_property_name_start('t0')
    return o


def sdk_elements(o):
    """path (as c08lib.index builds it) -> (table name, attribute dictionary as the class stores it, element)"""
    out = {}

    def priv(obj, cls):
        return getattr(obj, '_%s__attr' % cls, None) or getattr(obj, '_attr')
    for n, x in o.get_object_types().items():
        out[(('object-types', ''), ('object-type', n))] = ('objtype', priv(x, 'ObjectType'), x)
    for n, x in o.get_concepts().items():
        out[(('concepts', ''), ('concept', n))] = ('concept', priv(x, 'Concept'), x)
    for n, x in o.get_event_sources().items():
        out[(('sources', ''), ('source', n))] = ('source', priv(x, 'EventSource'), x)
    for n, et in o.get_event_types().items():
        base = (('event-types', ''), ('event-type', n))
        out[base] = ('etype', priv(et, 'EventType'), et)
        if et.get_parent() is not None:
            pa = et.get_parent()
            out[base + (('parent', priv(pa, 'EventTypeParent')['event-type']),)] = ('parent', priv(pa, 'EventTypeParent'), pa)
        for pn, p in et.get_properties().items():
            pb = base + (('properties', ''), ('property', pn))
            out[pb] = ('prop', priv(p, 'EventProperty'), p)
            for cn, a in p.get_concept_associations().items():
                out[pb + (('property-concept', cn),)] = ('assoc', priv(a, 'PropertyConcept'), a)
        for rid, r in et.get_property_relations().items():
            t = r.get_type()
            tab = 'rel_inter_intra' if t in ('inter', 'intra') else 'rel_other' if t == 'other' else 'rel_container_description_name_original'
            a = priv(r, 'PropertyRelation')
            out[base + (('relations', ''), (t, '%s>%s' % (a['source'], a['target'])))] = (tab, a, r)
        for an, a in et.get_attachments().items():
            out[base + (('attachments', ''), ('attachment', an))] = ('att', priv(a, 'EventTypeAttachment'), a)
    return out


TABLE_KEYS = {}


def aval_term(v):
    return OL.aval(v)


def def_term(tab, attr):
    return [(k, aval_term(attr.get(k))) for k in TABLE_KEYS[tab]]


def correspondence_cases(o, onto_el):
    """(table, stored definition, attributes written by generate_xml, attributes of the input element it was read from)"""
    cases = []
    idx = L.index(onto_el)
    for path, (tab, attr, obj) in sdk_elements(o).items():
        if tab not in TABLE_KEYS:
            continue
        try:
            written = dict(obj.generate_xml().attrib)
        except Exception as e:
            written = {'(exception)': type(e).__name__}
        cases.append((tab, dict(attr), written, idx.get(path)))
    return cases


def replay(path):
    obj = json.load(open(path))
    if obj.get('kind') != 'failing-input':
        print('replay names a broken obligation:', obj.get('obligation'))
        return 0
    i = obj['input']
    print('observed at check time:', obj.get('observed'))
    if 'document' in i:
        ck = Check(PID, ANCHORS)
        r = round_trip(ck, L.schema(), label_of, i['document'].encode('utf-8'), {})
        print('now:', [f['signature'] for f in ck.oracle_failures] or 'round trip holds')
        return 1 if ck.oracle_failures else 0
    return 1


def main(argv):
    import logging
    logging.disable(logging.CRITICAL)
    if len(argv) > 1 and argv[0] == '--replay':
        return replay(argv[1])
    ck = Check(PID, ANCHORS)
    names, notes, _ = T1.generate()
    for nt in notes:
        ck.obligation_failures.append(('T1:codec-table', nt))
    ck.trusted += ['harness/translate/c08.py: derivation of the per-attribute codec tables from the ast of generate_xml / create_from_xml / __init__ (fail-closed)',
                   'int(text) is the interpreter model of Valid/Normalize.v (C13) with the regenerated digit / whitespace tables',
                   'lxml: an element built from a dictionary carries exactly these attributes; attribute values survive serialisation and parsing (checked by the oracle only)']
    ck.assumptions += ['relation concepts / description / predicate are modelled as written-as-they-are (None never reaches generate_xml for the element types that keep them); '
                       'the confidence of a relation is modelled as required where the element type keeps it (the schema requires it)',
                       'constructor fallbacks (`x or default`) apply to empty values only, which the schema excludes']
    ck.prove()
    rng = ck.rng
    schema = L.schema()
    accepted = 0
    gen_errors = {}
    import re as _re
    gen_text = open(os.path.join(os.path.dirname(os.path.dirname(os.path.abspath(__file__))), 'coq', 'theories', 'Generated', 'C08_gen.v')).read()
    for m in _re.finditer(r'Definition gen_xk_(\w+) : ekind := \(Build_ekind \[(.*?)\] \[', gen_text):
        ks = []
        for km in _re.finditer(r'\(\(s2l "([^"]*)"%string\)|\(\[([0-9N%;]*)\], ', m.group(2)):
            if km.group(1) is not None:
                ks.append(km.group(1))
            elif km.group(2):
                ks.append(''.join(chr(int(x[:-2])) for x in km.group(2).split(';')))
        TABLE_KEYS[m.group(1)] = ks
    corr = []
    for i in range(ck.budget(150, 2000)):
        text = L.gen_ontology(rng)
        doc = L.wrap(text)
        st, info = round_trip(ck, schema, label_of, doc, {'document': doc.decode('utf-8'), 'origin': 'generated'})
        if isinstance(st, str):
            gen_errors.setdefault((st, label_of(info)), info)
        elif st is not None:
            accepted += 1
            if len(corr) < ck.budget(1500, 12000):
                corr += correspondence_cases(st, onto_of(doc)[1])
    for path, blob in corpus_ontologies():
        doc = L.wrap(blob.decode('utf-8'))
        try:
            st, info = round_trip(ck, schema, label_of, doc, {'document': doc.decode('utf-8'), 'origin': path})
        except Exception as e:
            ck.dist('corpus:unreadable')
            continue
        ck.dist('corpus:' + (st if isinstance(st, str) else 'checked'))
    # API built ontologies through a validating writer
    for i in range(ck.budget(60, 600)):
        try:
            o = api_built(rng)
            o.validate()
        except Exception as e:
            ck.dist('api:builder-error:' + type(e).__name__)
            continue
        out, err = sdk_write(o)
        ck.cov['evaluations'] += 1
        if out is None:
            if err.startswith('foreign:'):
                ck.oracle_failures.append({'signature': 'api/writer-raises/' + err.split(':')[1], 'input': {'origin': 'api_built #%d seed %d' % (i, ck.seed)}, 'observed': err})
            else:
                ck.oracle_failures.append({'signature': 'api/validated-ontology-not-writable/' + label_of(err), 'input': {'origin': 'api_built #%d seed %d' % (i, ck.seed)}, 'observed': err})
            continue
        ck.dist('api:written')
        root2, onto2 = onto_of(out)
        o2, err = sdk_parse(onto2)
        try:
            same = o2 is not None and (o2 == o) and not (o2 != o)
        except Exception as e:
            same = 'exception %s' % type(e).__name__
        if same is not True:
            ck.oracle_failures.append({'signature': 'api/parsed-back-not-equal', 'input': {'document': out.decode('utf-8'), 'origin': 'api_built'},
                                       'observed': 'written by a validating writer, parsed back: == gives %r (%s)' % (same, err)})
    # the serialisation follows the definitions: after an edit, and after clear() followed by new definitions (also when the
    # change counter happens to show the value it had before), generate_xml() shows what the ontology holds now
    from lxml import etree as _et
    for i in range(ck.budget(25, 200)):
        try:
            o = api_built(rng)
            first = _et.tostring(o.generate_xml())
            ot = o.get_object_type('o')
            ot.set_description('edited %d' % i)
            second = _et.tostring(o.generate_xml())
            ck.cov['evaluations'] += 1
            if ('edited %d' % i).encode() not in second:
                ck.oracle_failures.append({'signature': 'api/serialisation-does-not-follow-an-edit', 'input': {'origin': 'api_built, then ObjectType.set_description'},
                                           'observed': 'generate_xml() after the edit does not show the new description'})
                continue
            v = o.get_version()
            o.clear()
            k = 0
            while o.get_version() < v and k < 500:
                (o.create_object_type if k % 2 else o.create_concept)('z%d' % k)
                k += 1
            third = _et.fromstring(_et.tostring(o.generate_xml()))
            got = sorted(e.get('name') for e in third.iter() if e.tag in ('object-type', 'concept'))
            want = sorted(list(o.get_object_type_names()) + list(o.get_concept_names()))
            ck.cov['evaluations'] += 1
            ck.dist('api:clear-and-rebuild:counter-%s' % ('same' if o.get_version() == v else 'differs'))
            if got != want:
                ck.oracle_failures.append({'signature': 'api/serialisation-stale-after-clear', 'input': {'origin': 'api_built, generate_xml, clear(), %d new definitions' % k},
                                           'observed': 'generate_xml() lists %r, the ontology holds %r' % (got[:6], want[:6])})
        except Exception as e:
            ck.oracle_failures.append({'signature': 'api/history-raises/' + type(e).__name__, 'input': {'origin': 'api_built history'}, 'observed': repr(e)[:200]})
    terms, metas = [], []
    for tab, attr, written, inp in corr:
        terms.append(coq((Raw('gen_xk_' + tab), def_term(tab, attr), sorted(written.items()), Some(sorted(inp.items())) if inp is not None else None)))
        metas.append({'class': tab, 'stored': {k: repr(v) for k, v in attr.items()}, 'written': written, 'read_from': inp})
        ck.dist('class:' + tab)
    agree = ('fun c => match c with (k, d, written, inp) => '
             'match encode k d with Some x => Nat.eqb (length x) (length written) && forallb (fun kv => match aget (fst kv) x with Some s => str_eqb s (snd kv) | None => false end) written | None => false end && '
             'match inp with Some i => match decode (py_int udigit uspace) k i with Some d2 => def_eqb d2 d | None => false end | None => true end end')
    imports = 'From EdxmlVerif Require Import Base.Prelude Onto.Tree Valid.Normalize Onto.Xml Generated.C13_gen Generated.C08_gen.'
    bad, errs = run_cases(PID, imports, 'ekind * list (str * aval) * list (str * str) * option (list (str * str))', terms, agree, shard=300)
    for i in bad[:10]:
        ck.corr_failures.append({'case': metas[i], 'model': 'encode / decode of the class table disagrees with generate_xml / create_from_xml'})
    for e in errs[:3]:
        ck.corr_failures.append({'coq_error': e})
    ck.cov['traces_validated_against_impl'] = len(terms)
    ck.cov['disagreements_checked'] = len(bad)
    ck.cov['distinct_nontrivial'] = accepted
    ck.sample({'generator_rejections': {'%s/%s' % k: v for k, v in list(gen_errors.items())[:8]}})
    ck.cov['exhaustive'] = False
    ck.cov['rule'] = ('random schema-valid <ontology> elements written by an independent generator at the XML level (optional attributes absent / present / present at '
                      'their default, boundary lengths, whitespace in string-typed attributes, every relation type, parents, attachments with both encodings, concept '
                      'associations with/without extension and display names, version/sequence/timespan properties), every ontology element of the repository test corpus, '
                      'and API-built ontologies; judged by the official RelaxNG schema, an independent reader of both sides, byte identity of the second cycle and ==')
    return ck.finish()


if __name__ == '__main__':
    sys.exit(main(sys.argv[1:]))
