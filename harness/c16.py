"""C16 — a validated template always evaluates; evaluating never changes the event."""
import copy, io, json, re, sys
from common.core import Check, C, Z, Nat, coq, run_cases, Raw, Some, compile_defs
import ontolib as OL

PID = 'C16'
ANCHORS = ['edxml/template.py', 'edxml/ontology/event_type.py', 'edxml/ontology/event_property_relation.py', 'edxml/ontology/event_type_attachment.py',
           'edxml/cli/edxml_to_text.py', 'edxml/cli/edxml_template_tester.py']
IMPORTS = 'From EdxmlVerif Require Import Base.Prelude Templ.Template.'

PROPS = [('s', 'string:0:mc:u', False, False), ('m', 'string:0:mc:u', True, True), ('f', 'number:float:signed', True, False), ('n', 'number:int:signed', True, True),
         ('t0', 'datetime', True, False), ('t1', 'datetime', True, True), ('b', 'boolean', True, True), ('g', 'geo:point', True, False), ('u', 'string:0:mc:u', True, False)]
ATTS = ['doc', 'doc2']
PH_RE = re.compile(r'\[\[[^]]*]]')


def ontology():
    ots = [OL.OT('ot-' + n, dt) for n, dt, _, _ in PROPS]
    props = [OL.PROP(n, 'ot-' + n, optional=opt, multivalued=multi) for n, _, opt, multi in PROPS]
    et = OL.ET('ta', props, attachments=[OL.ATT(a) for a in ATTS])
    return OL.load_element(OL.ONTO(object_types=ots, event_types=[et], sources=[OL.SOURCE('/s/')]))


VALUES = {'s': ['alpha', 'x y', 'Zed', 'C:\\Users\\alice', '\\1', '\\g<0>', 'a\\'], 'm': ['one', 'two', 'three', '', 'back\\slash', '\\2'], 'f': ['1.500000E+00', '-2.250000E-03', '0.000000E+00', '1.000000E+10'],
          'n': ['5', '-17', '0'], 't0': ['2020-01-01T10:00:00.000000Z', '1999-12-31T23:59:59.999999Z'],
          't1': ['2020-01-02T11:30:05.000001Z', '2021-06-15T00:00:00.000000Z', '2020-01-01T10:00:00.000000Z'], 'b': ['true', 'false'],
          'g': ['52.370000,4.890000', '-33.860000,151.200000', '0.000000,0.000000'], 'u': ['http://a/b', 'x']}


def gen_event(rng):
    props = {'s': [rng.choice(VALUES['s'])]}
    for n, _, opt, multi in PROPS[1:]:
        if rng.random() < 0.6:
            pool = [v for v in VALUES[n] if v != '']
            k = rng.randint(1, min(3, len(pool))) if multi else 1
            props[n] = rng.sample(pool, k)
    atts = {}
    for a in ATTS:
        if rng.random() < 0.4:
            atts[a] = {'id%d' % i: rng.choice(['attached text', 'second\nline', 'x', 'path\\to\\1', '\\g<1>']) for i in range(rng.randint(1, 2))}
    return props, atts


def gen_placeholder(rng, valid):
    P = [n for n, _, _, _ in PROPS]
    dts = ['t0', 't1']
    k = rng.randrange(14)
    p = rng.choice(P)
    if k == 0:
        ph = p
    elif k == 1:
        ph = 'merge:' + ','.join(rng.sample(P, rng.randint(1, 3)))
    elif k == 2:
        ph = 'time_span:%s,%s' % (rng.choice(dts), rng.choice(dts))
    elif k == 3:
        ph = 'duration:%s,%s' % (rng.choice(dts), rng.choice(dts))
    elif k == 4:
        ph = 'date_time:%s,%s' % (rng.choice(dts), rng.choice(['year', 'month', 'date', 'hour', 'minute', 'second', 'millisecond', 'microsecond']))
    elif k == 5:
        ph = 'boolean_string_choice:b,yes,no'
    elif k == 6:
        ph = rng.choice(['boolean_on_off:b', 'boolean_is_is_not:b'])
    elif k == 7:
        ph = 'empty:%s,%s' % (p, rng.choice(['nothing', 'no value', '']))
    elif k == 8:
        ph = 'unless_empty:%s,%s' % (','.join(rng.sample(P, rng.randint(1, 3))), rng.choice(['present', 'has it']))
    elif k == 9:
        ph = 'url:%s,%s' % (rng.choice(['u', 's']), rng.choice(['link', 'the page']))
    elif k == 10:
        ph = 'attachment:' + rng.choice(ATTS)
    elif k == 11:
        ph = rng.choice(['g', 'f', 'n'])
    else:
        ph = p
    if not valid:
        ph = rng.choice(INVALID_PH)
    return '[[' + ph + ']]'


INVALID_PH = ([
            'nosuch', '', 'merge:', 'merge:s,nosuch', 'time_span:t0', 'time_span:s,t0', 'time_span:t0,s', 'duration:t0,t1,t0', 'duration:n,t1', 'date_time:t0', 'date_time:t0,week',
            'date_time:s,year', 'boolean_string_choice:b,yes', 'boolean_string_choice:s,yes,no', 'boolean_on_off:s', 'boolean_on_off:b,x', 'empty:s', 'empty:nosuch,x',
            'unless_empty:s', 'unless_empty:nosuch,x', 'url:u', 'url:u,a,b', 'attachment:nosuch', 'attachment:', 'attachment:doc,doc2', 'unknown_formatter:s', 's:x', ':s', 'merge:s,',
            'empty:s,{none}', 'url:u,{x}', 'date_time:t0,{year}', 's,m', 'merge:,s', 'time_span:,t0', 'empty:,x', 'date_time:t0,year,extra', 'boolean_is_is_not:', 'duration:t0,',
            'time_span:n,t1', 'time_span:t1,n', 'duration:s,t0', 'duration:t0,s', 'duration:t0,b', 'boolean_string_choice:n,a,b', 'boolean_is_is_not:t0', 'date_time:n,hour'])


def gen_template(rng, depth=0, valid=True):
    parts = []
    for _ in range(rng.randint(1, 4)):
        k = rng.randrange(10)
        if k < 3:
            parts.append(rng.choice(['text ', 'a [bracket] b ', 'x]y ', '[ ', ' and ', '', 'colon: ', ', ', '[', ']', '[', 'see [', '] ']))
        elif k < 7:
            parts.append(gen_placeholder(rng, valid or rng.random() < 0.7))
            if rng.random() < 0.2:
                parts.append(gen_placeholder(rng, True))          # adjacent placeholders
        elif depth < 4:
            parts.append('{' + gen_template(rng, depth + 1, valid) + '}')
        else:
            parts.append('deep ')
    return ''.join(parts)


def malformed_template(rng):
    t = gen_template(rng, valid=False)
    k = rng.randrange(5)
    if k == 0:
        return t + '}'
    if k == 1:
        return '{' + t
    if k == 2:
        return t.replace(']]', ']', 1)
    if k == 3:
        return '}' + t + '{'
    return t


# ---- an independent reading of the template semantics (the property's own words) for the formatters without library renderings
def spec_eval(tpl, props, atts):
    """expected text, or None when the template uses something this reading does not cover"""
    pos = 0

    def placeholder(content):
        f, _, a = content.partition(':') if ':' in content else (None, '', content)
        args = a.split(',')
        vals = lambda p: list(props.get(p, []))
        if f is None:
            if args[0] in ('g', 'f'):
                return None
            objs = vals(args[0])
        elif f == 'merge':
            if any(x in ('f',) for x in args):
                return None
            objs = [v for p in args for v in vals(p)]
        elif f == 'empty':
            objs = [] if vals(args[0]) else [args[1]]
        elif f == 'unless_empty':
            objs = [args[-1]] if any(vals(p) for p in args[:-1]) else []
        elif f == 'url':
            objs = ['%s (%s)' % (args[1], v) for v in vals(args[0])]
        elif f == 'boolean_string_choice':
            objs = [args[1] if v == 'true' else args[2] for v in vals(args[0])]
        elif f == 'boolean_on_off':
            objs = ['on' if v == 'true' else 'off' for v in vals(args[0])]
        elif f == 'boolean_is_is_not':
            objs = ['is' if v == 'true' else 'is not' for v in vals(args[0])]
        elif f == 'attachment':
            objs = ['\n\n' + v + '\n\n' for v in atts.get(args[0], {}).values()]
        else:
            return None
        if not objs or ''.join(objs) == '':
            return ''
        return objs[0] if len(objs) == 1 else ', '.join(objs[:-1]) + ' and ' + objs[-1]

    def scope(s, i):
        """evaluate from i up to the matching '}' (or the end); returns (text or None, next index, collapsed?)"""
        out, collapsed, unknown = '', False, False
        while i < len(s):
            c = s[i]
            if c == '}':
                return (None if unknown else ('' if collapsed else out)), i + 1
            if c == '{':
                inner, i = scope(s, i + 1)
                if inner is None:
                    unknown = True
                else:
                    out += inner
                continue
            m = PH_RE.match(s, i)
            if m:
                r = placeholder(m.group(0)[2:-2])
                if r is None:
                    unknown = True
                elif r == '':
                    collapsed = True
                else:
                    out += r
                i = m.end()
                continue
            out += c
            i += 1
        return (None if unknown else ('' if collapsed else out)), i
    text, _ = scope(tpl, 0)
    return text


def tables(values_used):
    """library renderings for the values that occur"""
    from dateutil.parser import parse
    from edxml.template import Template
    fl, iso, dur, fmt = [], [], [], []
    for v in sorted(values_used):
        try:
            fl.append((v, Some('%f' % float(v))))
        except ValueError:
            fl.append((v, None))
        try:
            d = parse(v)
            iso.append((v, Some(d.isoformat(' '))))
        except Exception:
            iso.append((v, None))
    dts = [v for v, o in iso if o is not None and 'T' in v]
    for a in dts:
        for b in dts:
            dur.append((a + '|' + b, Some(Template._format_time_duration(parse(a), parse(b)))))
    acc = {'microsecond': lambda d: d.strftime('%A, %B %d %Y at %H:%M:%S.%fh'), 'millisecond': lambda d: d.strftime('%A, %B %d %Y at %H:%M:%S.') + d.strftime('%f')[:3] + 'h',
           'second': lambda d: d.strftime('%A, %B %d %Y at %H:%M:%Sh'), 'minute': lambda d: d.strftime('%A, %B %d %Y at %H:%Mh'), 'hour': lambda d: d.strftime('%A, %B %d %Y at %Hh'),
           'date': lambda d: d.strftime('%A, %B %d %Y'), 'month': lambda d: d.strftime('%B %Y'), 'year': lambda d: d.strftime('%Y')}
    for a in dts:
        for k, f in acc.items():
            fmt.append((k + '|' + a, Some(f(parse(a)))))
    return fl, iso, dur, fmt


def replay(path):
    obj = json.load(open(path))
    if obj.get('kind') != 'failing-input':
        print('replay names a broken obligation:', obj.get('obligation'))
        return 0
    print(json.dumps(obj['input'], ensure_ascii=False)[:1500])
    print('observed at check time:', obj.get('observed'))
    return 1


def main(argv):
    import logging
    logging.disable(logging.CRITICAL)
    if len(argv) > 1 and argv[0] == '--replay':
        return replay(argv[1])
    from edxml import Template, EDXMLEvent
    from edxml.error import EDXMLOntologyValidationError
    ck = Check(PID, ANCHORS)
    ck.trusted += ['library renderings ("%f" % float, dateutil parse / isoformat / strftime, relativedelta) are parameters of the model, tabulated from the libraries for the values in play',
                   'the rendering of geo:point coordinates is taken from the implementation (tabulated through a one-placeholder template); its arithmetic is not modelled',
                   'Python set iteration order: the model receives the objects of each property in the order the implementation iterates them']
    ck.assumptions += ['float properties are single valued in the correspondence (the implementation re-renders them into a new set whose iteration order the model cannot know)',
                       'colorize is off; capitalisation is applied outside the model',
                       'the model validate also checks the placeholders found inside each brace-delimited piece (argued equal to the placeholders of the whole template once '
                       'curly brackets inside placeholders are rejected; compared with the real validate on every generated template)']
    ck.prove()
    # T1: the model's placeholder scanner (Templ/Template.v: findall) stands for ONE regular expression; validation and every evaluation
    # step of the running code must still use exactly that expression (a split between them lets validated templates evaluate differently)
    import ast as _ast, os as _os
    src = open(_os.path.join('/repo', 'edxml', 'template.py')).read()
    uses = []
    for node in _ast.walk(_ast.parse(src)):
        if isinstance(node, _ast.Call) and isinstance(node.func, _ast.Attribute) and isinstance(node.func.value, _ast.Name) and node.func.value.id == 're' and node.args:
            a0 = node.args[0]
            uses.append((node.func.attr, a0.value if isinstance(a0, _ast.Constant) else _ast.unparse(a0)))
    expected = [('compile', '\\[\\[[^]]*]]'), ('findall', 'self.TEMPLATE_PATTERN'), ('findall', '\\[\\[[^]]*]]'), ('findall', '(\\[\\[([^]]*)]])'),
                ('findall', 'self.TEMPLATE_PATTERN')]
    ck.cov['t1_template_regexes'] = ['%s(%s)' % u for u in uses]
    if sorted(uses) != sorted(expected):
        ck.obligation_failures.append(('T1:template-regular-expressions',
                                       'edxml/template.py uses %r; the placeholder scanner of the model stands for %r' % (sorted(uses), sorted(expected))))
    ck.trusted += ['T1 (harness/c16.py): the regular expressions of edxml/template.py are re-read from the source (ast) and compared with the ones the model was written for']
    rng = ck.rng
    onto = ontology()
    et = onto.get_event_type('ta')
    tinfo = C('Build_tinfo', [(n, dt) for n, dt, _, _ in PROPS], list(ATTS))
    templates = [gen_template(rng) for _ in range(ck.budget(220, 3000))] + [malformed_template(rng) for _ in range(ck.budget(120, 1500))]
    # one wrong placeholder in an otherwise valid template
    templates += ['see [[s]]{ then %s}' % ('[[' + ph + ']]') for ph in INVALID_PH if '{' not in ph and '}' not in ph]
    templates += ['[[s]]', '{[[m]]}', '[[s]]{ [[merge:m,n]]{ and [[empty:u,nothing]]}}', '[[time_span:t0,t1]]', 'x{[[duration:t0,t1]]}y', '[[k]] x{ [[empty:v,{none}]]}',
                  '[[s]] [[s]]', '[[f]]', '{{{{[[g]]}}}}', '[[unless_empty:m,n,both or one]]', '', '{}', '[[attachment:doc]]']
    events = [gen_event(rng) for _ in range(ck.budget(8, 30))]
    events.append(({'s': ['alpha']}, {}))
    events.append(({'s': ['alpha'], 'm': ['one', 'two', 'three'], 'f': ['1.500000E+00'], 'n': ['5', '0'], 't0': [VALUES['t0'][0]], 't1': list(VALUES['t1']), 'b': ['true', 'false'],
                   'g': [VALUES['g'][0]], 'u': ['x']}, {'doc': {'a': 'attached text', 'b': 'x'}}))
    geo = {}
    for v in VALUES['g']:
        geo[v] = Template('[[g]]').evaluate(et, {'g': {v}}, {}, capitalize=False)
    val_terms, val_meta, ev_terms, ev_meta = [], [], [], []
    used = set()
    for tpl in templates:
        try:
            Template(tpl).validate(et)
            ok = True
        except EDXMLOntologyValidationError:
            ok = False
        except Exception as e:
            ck.oracle_failures.append({'signature': 'validate-raises/%s' % type(e).__name__, 'input': {'template': tpl}, 'observed': '%s: %s' % (type(e).__name__, str(e)[:160])})
            continue
        ck.cov['evaluations'] += 1
        ck.dist('template:' + ('valid' if ok else 'rejected'))
        val_terms.append(coq((tpl, ok)))
        val_meta.append({'template': tpl, 'valid': ok})
        if not ok:
            continue
        ck.cov['distinct_nontrivial'] += 1
        for props, atts in rng.sample(events, min(len(events), ck.budget(4, 10))):
            ev = EDXMLEvent({k: list(v) for k, v in props.items()}, 'ta', '/s/', None, {k: dict(v) for k, v in atts.items()} or None)
            before = ({k: sorted(v) for k, v in ev.get_properties().items()}, {k: dict(v) for k, v in ev.get_attachments().items()})
            ordered = [(k, list(v)) for k, v in ev.get_properties().items()]
            att_ordered = [(k, list(v.values())) for k, v in ev.get_attachments().items()]
            inp = {'template': tpl, 'properties': props, 'attachments': atts}
            try:
                text = Template(tpl).evaluate(et, ev.get_properties(), ev.get_attachments(), capitalize=False)
                err = None
            except Exception as e:
                text, err = None, '%s: %s' % (type(e).__name__, str(e)[:160])
            ck.cov['evaluations'] += 1
            after = ({k: sorted(v) for k, v in ev.get_properties().items()}, {k: dict(v) for k, v in ev.get_attachments().items()})
            if err:
                ck.oracle_failures.append({'signature': 'validated-template-raises/%s' % err.split(':')[0], 'input': inp, 'observed': err})
            elif after != before:
                ck.oracle_failures.append({'signature': 'evaluation-changed-the-event', 'input': inp, 'observed': 'before %r after %r' % (before, after)})
            else:
                # a placeholder OF THE TEMPLATE that is still there (literal brackets of the template may line up to something that looks like one)
                if any(ph in text for ph in PH_RE.findall(tpl)) and not any('[[' in v for vs in props.values() for v in vs):
                    ck.oracle_failures.append({'signature': 'unresolved-placeholder', 'input': inp, 'observed': text[:300]})
                want = spec_eval(tpl, {k: list(v) for k, v in ordered}, {k: dict(zip(range(len(v)), v)) for k, v in att_ordered})
                if want is not None and want != text:
                    ck.oracle_failures.append({'signature': 'rendering-differs-from-the-template-semantics', 'input': inp, 'observed': 'got %r, the template means %r' % (text, want)})
                ck.dist('spec-reading:' + ('covered' if want is not None else 'not-covered'))
            # the same through EventType.evaluate_template (story) and capitalisation
            for vs in props.values():
                used.update(vs)
            ev_terms.append(coq((tpl, ordered, att_ordered, C('ROk', text) if err is None else C('RErr'))))
            ev_meta.append(dict(inp, result=text, error=err))
    fl, iso, dur, fmt = tables(used | {v for vs in VALUES.values() for v in vs})
    defs = ['Definition ti : tinfo := %s.' % coq(tinfo),
            'Definition fl_tbl : list (str * option str) := %s.' % coq(fl), 'Definition iso_tbl : list (str * option str) := %s.' % coq(iso),
            'Definition dur_tbl : list (str * option str) := %s.' % coq(dur), 'Definition fmt_tbl : list (str * option str) := %s.' % coq(fmt),
            'Definition geo_tbl : list (str * option str) := %s.' % coq([(k, Some(v)) for k, v in geo.items()]),
            'Definition run (tpl : str) (vals atts : list (str * list str)) : res :=',
            '  fst (evaluate ti (lookup_opt fl_tbl) (lookup_opt iso_tbl) (fun a b => lookup_opt dur_tbl (a ++ [124%N] ++ b)) (fun k v => lookup_opt fmt_tbl (k ++ [124%N] ++ v)) (lookup_opt geo_tbl) true tpl vals atts).']
    shared, out = compile_defs(PID, IMPORTS, '\n'.join(defs))
    if shared is None:
        ck.corr_failures.append({'coq_error': out[-2000:]})
    else:
        bad, errs = run_cases(PID, IMPORTS, 'str * bool', val_terms, 'fun c => Bool.eqb (validate true ti (fst c)) (snd c)', shard=400, defs=shared, tag='t2validate')
        for i in bad[:10]:
            ck.corr_failures.append({'case': val_meta[i], 'model': 'validate differs'})
        bad2, errs2 = run_cases(PID, IMPORTS, 'str * list (str * list str) * list (str * list str) * res', ev_terms,
                                'fun c => match c with (tpl, vals, atts, obs) => res_eqb (run tpl vals atts) obs end', shard=300, defs=shared, tag='t2evaluate')
        for i in bad2[:10]:
            ck.corr_failures.append({'case': ev_meta[i], 'model': 'evaluate differs'})
        for e in (errs + errs2)[:3]:
            ck.corr_failures.append({'coq_error': e})
        ck.cov['traces_validated_against_impl'] = len(val_terms) + len(ev_terms)
        ck.cov['disagreements_checked'] = len(bad) + len(bad2)
    ck.cov['exhaustive'] = False
    ck.cov['rule'] = ('templates generated from the grammar (every formatter with valid and invalid argument lists, scopes nested to depth 4, adjacent placeholders, literal brackets, '
                      'unbalanced and damaged templates) against an event type with string, float, int, datetime, boolean and geo properties and attachments; every template '
                      'that validates is evaluated for valid events with empty optional and multi-valued properties; checked: no exception, event unchanged, no unresolved '
                      'placeholder, text equal to an independent reading of the template semantics (formatters without library renderings)')
    return ck.finish()


if __name__ == '__main__':
    sys.exit(main(sys.argv[1:]))
