"""C03: independent statement of the EDXML value spaces (spec_valid), a directed boundary-value catalogue per
data type, and helpers to ask the real gate."""
import base64, io, re, string
from decimal import Decimal

HEX = set('0123456789abcdef')


def _canon_uint(s):
    return s.isascii() and s.isdigit() and (s == '0' or s[0] != '0')


def _canon_int(s):
    if s.startswith('-'):
        return _canon_uint(s[1:]) and s[1:] != '0'
    return _canon_uint(s)


INT_BITS = {'tinyint': 8, 'smallint': 16, 'mediumint': 24, 'int': 32, 'bigint': 64}


def spec_valid(dt, v, regex_hard=None):
    """True / False; None when this oracle does not state the value space precisely (no verdict)"""
    p = dt.split(':')
    fam = p[0]
    if v == '':
        return False
    if fam == 'number':
        kind = p[1]
        signed = p[-1] == 'signed'
        if kind in INT_BITS:
            bits = INT_BITS[kind]
            if not (_canon_int(v) if signed else _canon_uint(v)):
                return False
            n = int(v)
            return -(2 ** (bits - 1)) <= n <= 2 ** (bits - 1) - 1 if signed else 0 <= n <= 2 ** bits - 1
        if kind in ('decimal', 'currency'):
            total, frac = (int(p[2]), int(p[3])) if kind == 'decimal' else (19, 4)
            if kind == 'currency':
                signed = True
            m = re.fullmatch(r'(-?)(0|[1-9][0-9]*)\.([0-9]{%d})' % frac, v) if frac > 0 else re.fullmatch(r'(-?)(0|[1-9][0-9]*)()', v)
            if not m or not v.isascii():
                return False
            if m.group(1) and (not signed or (int(m.group(2)) == 0 and int(m.group(3) or '0') == 0)):
                return False
            digits = len(m.group(2).lstrip('0')) + frac
            return digits <= total
        if kind in ('float', 'double'):
            nd = 6 if kind == 'float' else 15
            # only the clear cases: the canonical %.NE form is valid; text that is not a number at all is invalid.
            # Other spellings of numbers, non-normalised mantissas and negative zero are not stated here.
            m = re.fullmatch(r'(-?)([1-9])\.([0-9]{%d})E([+-])([0-9]{2})' % nd, v)
            if m and v.isascii():
                if m.group(1) and not signed:
                    return False
                return True if float(v) not in (float('inf'), float('-inf')) and abs(float(v)) < (3e38 if kind == 'float' else 1e308) else None
            if v == '0.' + '0' * nd + 'E+00':
                return True
            if not re.fullmatch(r'[+-]?[0-9]+(\.[0-9]+)?([Ee][+-]?[0-9]+)?', v) or not v.isascii():
                return False
            return None
        return None
    if fam == 'sequence':
        return _canon_uint(v) and int(v) < 2 ** 64
    if fam == 'boolean':
        return v in ('true', 'false')
    if fam == 'enum':
        return v in p[1:]
    if fam == 'hex':
        n = int(p[1])
        if len(p) <= 2:
            return len(v) == 2 * n and set(v) <= HEX
        g = int(p[2])
        sep = p[3] if p[3] != '' else ':'
        if g <= 0 or n % g:
            return None
        groups = v.split(sep) if n // g > 1 else [v]
        return len(groups) == n // g and all(len(x) == 2 * g and set(x) <= HEX for x in groups)
    if fam == 'uuid':
        return bool(re.fullmatch(r'[0-9a-f]{8}-[0-9a-f]{4}-[0-9a-f]{4}-[0-9a-f]{4}-[0-9a-f]{12}', v)) and v.isascii()
    if fam == 'ip':
        if p[1] == 'v4':
            q = v.split('.')
            return len(q) == 4 and all(_canon_uint(x) and int(x) <= 255 for x in q)
        g = v.split(':')
        return len(g) == 8 and all(len(x) == 4 and set(x) <= HEX for x in g)
    if fam == 'geo':
        m = re.fullmatch(r'(-?)(0|[1-9][0-9]?)\.([0-9]{6}),(-?)(0|[1-9][0-9]{0,2})\.([0-9]{6})', v)
        if not m or not v.isascii():
            return False
        lat, lon = Decimal(m.group(2) + '.' + m.group(3)), Decimal(m.group(5) + '.' + m.group(6))
        if lat > 90 or lon > 180:
            return False
        if lat == 90 or lon == 180:
            return None        # poles / antimeridian have a single canonical spelling that is not stated here
        if (m.group(1) and lat == 0) or (m.group(4) and lon == 0):
            return None        # negative zero: not stated
        return True
    if fam == 'datetime':
        m = re.fullmatch(r'([0-9]{4})-([0-9]{2})-([0-9]{2})T([0-9]{2}):([0-9]{2}):([0-9]{2})\.([0-9]{6})Z', v)
        if not m or not v.isascii():
            return False
        y, mo, d, h, mi, s = (int(m.group(i)) for i in range(1, 7))
        if y < 1583 or not 1 <= mo <= 12 or not 0 <= h <= 23 or mi > 59 or s > 59:
            return False
        dim = [31, 29 if (y % 4 == 0 and (y % 100 != 0 or y % 400 == 0)) else 28, 31, 30, 31, 30, 31, 31, 30, 31, 30, 31][mo - 1]
        return 1 <= d <= dim
    if fam == 'base64':
        if not re.fullmatch(r'[A-Za-z0-9+/]*={0,2}', v) or len(v) % 4:
            return False
        try:
            raw = base64.b64decode(v, validate=True)
        except Exception:
            return False
        if base64.b64encode(raw).decode('ascii') != v:
            return False          # xs:base64Binary is canonical: the unused bits of the last character before the padding are zero
        limit = int(p[1])
        return len(raw) >= 1 and (limit == 0 or len(raw) <= limit)
    if fam == 'string':
        length, case = int(p[1]), p[2]
        flags = p[3] if len(p) > 3 else ''
        if length and len(v) > length:
            return False
        if 'u' not in flags and any(ord(c) > 255 for c in v):
            return False
        if any(ord(c) > 127 for c in v) or any(c in '\t\r\n' for c in v):
            if case != 'mc' or regex_hard:
                return None    # case of non-ASCII letters / whitespace handling: not stated here
        if case == 'lc' and any(c in string.ascii_uppercase for c in v):
            return False
        if case == 'uc' and any(c in string.ascii_lowercase for c in v):
            return False
        if regex_hard is not None:
            return bool(re.fullmatch(regex_hard, v))
        return True
    return None      # uri, file: anything non-empty


def catalogue():
    """data type -> list of values (expected verdicts come from spec_valid)"""
    ints = lambda lo, hi: [str(lo), str(lo - 1), str(hi), str(hi + 1), '0', '-0', '+1', '01', '1', '-1', '7', ' 7', '7 ', '1.0', '1e3', 'x', '١', '٧']
    cat = {}
    for kind, bits in INT_BITS.items():
        cat['number:%s' % kind] = ints(0, 2 ** bits - 1)
        cat['number:%s:signed' % kind] = ints(-(2 ** (bits - 1)), 2 ** (bits - 1) - 1)
    cat['sequence'] = ['0', '1', '7', '07', '+7', '-0', '-1', str(2 ** 64 - 1), str(2 ** 64), ' 7', '7.0', '٧', 'x']
    cat['number:decimal:5:2'] = ['0.00', '1.50', '999.99', '1000.00', '1.5', '1.500', '01.50', '-1.50', '+1.50', '.50', '1.', '1', '-0.00', '1.5x', '1,50', ' 1.50', '١.٥٠', '_00.35', '1_0.50', '1.5E+0', '15E-1']
    cat['number:decimal:5:2:signed'] = ['0.00', '-1.50', '-999.99', '-1000.00', '-0.00', '-0.01', '+1.50', '1.50', '-01.50', '--1.50']
    cat['number:decimal:4:0'] = ['0', '1', '9999', '10000', '1.', '1.0', '-1', '-0', '01', '+1', '١']
    cat['number:decimal:4:0:signed'] = ['0', '-1', '-9999', '-10000', '-0', '1', '-1.', '-01']
    cat['number:currency'] = ['0.0000', '1.0000', '-1.0000', '-0.0000', '-0.0001', '1.00', '1.00000', '999999999999999.9999', '9999999999999999.9999', '01.0000']
    cat['number:float'] = ['1.500000E+00', '0.000000E+00', '-1.500000E+00', '1.5E+00', '15.000000E-01', '1.500000e+00', '1.500000E+0', '1.500000E+000', 'NaN', 'INF',
                           '-0.000000E+00', '0.500000E+00', '1.500000E+38', '1.50000E+00', '1.5000000E+00', ' 1.500000E+00', '+1.500000E+00', '1.500000', '١.٥٠٠٠٠٠E+٠٠']
    cat['number:float:signed'] = ['-1.500000E+00', '1.500000E+00', '-0.000000E+00', '0.000000E+00', '-1.5E+00', 'NaN', '-INF']
    cat['number:double'] = ['1.500000000000000E+00', '0.000000000000000E+00', '1.500000E+00', '1.500000000000000E+300', '-1.500000000000000E+00', 'NaN']
    cat['hex:4'] = ['0a1b2c3d', '0A1B2C3D', '0a1b2c3', '0a1b2c3d4e', '0a1b2c3g', '٠a1b2c3d', ' 0a1b2c3d', '']
    cat['hex:4:2:-'] = ['0a1b-2c3d', '0a1b2c3d', '0a1b-2c3', '0a1b:2c3d', '0A1B-2C3D', '٠a1b-2c3d', '0a1b-2c3d-']
    cat['hex:6:1::'] = ['0a:1b:2c:3d:4e:5f', '0a1b2c3d4e5f', '0a:1b:2c:3d:4e', '0a:1b:2c:3d:4e:5g', '٠a:1b:2c:3d:4e:5f']
    cat['uuid'] = ['0a1b2c3d-0a1b-0a1b-0a1b-0a1b2c3d4e5f', '0A1B2C3D-0a1b-0a1b-0a1b-0a1b2c3d4e5f', '0a1b2c3d0a1b0a1b0a1b0a1b2c3d4e5f',
                   '٠a1b2c3d-0a1b-0a1b-0a1b-0a1b2c3d4e5f', '0a1b2c3d-0a1b-0a1b-0a1b-0a1b2c3d4e5', 'x']
    cat['boolean'] = ['true', 'false', 'True', '1', '0', ' true', 'true ', 'yes', '']
    cat['enum:a:b'] = ['a', 'b', 'c', 'A', 'a:b', ' a', '']
    cat['ip:v4'] = ['1.2.3.4', '0.0.0.0', '255.255.255.255', '256.1.1.1', '01.2.3.4', '1.2.3', '1.2.3.4.5', '1a2b3c4', '1.2.3.4 ', '1.2.3.-4', '١.2.3.4', '001.2.3.4', '1..3.4']
    cat['ip:v6'] = ['0000:0000:0000:0000:0000:0000:0000:0001', '::1', '0000:0000:0000:0000:0000:0000:0000:000g', '0000:0000:0000:0000:0000:0000:0000:0001:0000',
                    '0000:0000:0000:0000:0000:0000:0000:000A', '٠000:0000:0000:0000:0000:0000:0000:0001']
    cat['geo:point'] = ['52.000000,4.000000', '-52.500000,-4.250000', '90.000000,180.000000', '-90.000000,-180.000000', '90.000001,0.000000',
                        '91.000000,0.000000', '0.000000,180.000001', '0.000000,181.000000', '52.0,4.0', '52.000000, 4.000000', '052.000000,4.000000',
                        '52.000000,004.000000', '-90x000000,0y000000', '90000000,00000000', '52.000000', '٥٢.000000,4.000000', '-90.000000,0.000000',
                        '90.000000,0.000000', '89.999999,179.999999']
    cat['datetime'] = ['2020-01-01T00:00:00.000000Z', '1583-01-01T00:00:00.000000Z', '1582-12-31T23:59:59.999999Z', '2020-01-01T00:00:00Z',
                       '2020-01-01T00:00:00.000Z', '2020-01-01T00:00:00.0000000Z', '2020-01-01T00:00:00.000000+00:00', '2020-01-01T00:00:00.000000',
                       '2020-01-01T24:00:00.000000Z', '2020-02-30T00:00:00.000000Z', '2020-13-01T00:00:00.000000Z', '2020-01-01 00:00:00.000000Z',
                       '2020-01-01T00:00:00.000000z', '2020-02-29T12:30:45.123456Z', '2021-02-29T00:00:00.000000Z', ' 2020-01-01T00:00:00.000000Z']
    cat['base64:4'] = ['YWJj', 'YWJjZA==', 'YWJjZGU=', 'YWI', 'YW Jj', 'YWJj\n', '!!!!', '', 'YQ==']
    cat['base64:0'] = ['YWJj', 'YWJjZGVmZ2hpamtsbW5vcA==', '', 'YWI']
    cat['string:0:mc:u'] = ['a', 'A b', 'é', '€', '\U0001f600', 'x' * 300]
    cat['string:3:mc:u'] = ['abc', 'abcd', 'a', '€€€', '€€€€']
    cat['string:0:lc'] = ['abc', 'aBc', 'ABC', 'a1', 'é', '€']
    cat['string:0:uc'] = ['ABC', 'AbC', 'abc', 'A1']
    cat['string:0:mc'] = ['abc', 'ABC', 'é', 'ÿ', '€', 'Ā']
    cat['string:0:lc:u'] = ['abc', 'aBc', '€', 'a b']
    cat['string:0:mc:ru'] = ['abc', '€', '\U0001f600', 'Ā']
    cat['string:0:mc:ur'] = ['abc', '€', 'Ā']
    cat['string:0:mc:r'] = ['abc', '€', 'ÿ']
    # a hard regular expression of the object type comes on top of the restrictions of the data type, never instead of them
    cat['string:0:lc|[a-zA-Z]+'] = ['abc', 'Abc', 'ABC', 'a1', 'a b']
    cat['string:0:uc|[a-zA-Z]+'] = ['ABC', 'Abc', 'abc', 'A1']
    cat['string:0:mc|\\S+'] = ['abc', 'a b', '€', 'Ā', 'x€']
    cat['string:3:mc:u|[a-z]+'] = ['abc', 'abcd', 'ab1', 'a', 'ABC']
    cat['string:0:lc:u|[a-zA-Z]+'] = ['abc', 'Abc', 'a1']
    cat['string:2:uc|[A-Z0-9]*'] = ['AB', 'ABC', 'A1', 'a1', 'A']
    return cat


def make_ontology(dt, regex_hard=None):
    import ontolib as OL
    ot = OL.OT('o', dt)
    if regex_hard:
        ot['regex-hard'] = regex_hard
    o = OL.ONTO(object_types=[ot], event_types=[OL.ET('ta', [OL.PROP('v', 'o')])], sources=[OL.SOURCE('/s/')])
    return OL.load_element(o)
