"""C05 — merging is insensitive to arrival order, duplication and batching."""
import io, itertools, json, sys
from common.core import Check, C, coq, run_cases, Raw
from common import gen_doc as G
import mergelib as M

PID = 'C05'
ANCHORS = ['edxml/ontology/event_type.py', 'edxml/cli/edxml_merge.py', 'edxml/cli/edxml_diff.py']
ORDER_FREE = ('match', 'add', 'min', 'max', 'replace')
CASE_T = 'etype * list mevent * list (str * list (str * Z)) * option mevent'
AGREE = ('fun c => match c with (et, evs, tbl, out) => result_eqb (merge (rank_table tbl) FirstSet et evs) out end')
STREAM_IMPORTS = 'From EdxmlVerif Require Import Base.Prelude Event.Merge Event.Stream.'
STREAM_T = 'etype * list (str * mevent) * list (str * list (str * Z)) * nat * option (list (str * mevent))'
STREAM_AGREE = ('fun c => match c with (et, s, tbl, n, out) => out_eqb '
                '(match n with O => match fold_merger (rank_table tbl) FirstSet et [] s with Some b => Some b | None => None end '
                '| _ => buffered (rank_table tbl) FirstSet et true n [] 0 s end) out end')


def canon(et, status, obs, only_order_free=True):
    if status != 'ok':
        return (status,)
    names = [p['name'] for p in et['props'] if (p['merge'] in ORDER_FREE or not only_order_free)]
    return ('ok', tuple((n, tuple(obs['props'].get(n, []))) for n in names), tuple(obs['parents']))


def merge_obs(onto, et, group, rep='EDXMLEvent'):
    status, obs, merged = M.run_merge(onto, M.make_events(et, group, rep))
    return status, obs, merged


def resolve_obs(onto, et, group, rep='EDXMLEvent'):
    """the same group through EventCollection.resolve_collisions() (all instances share one sticky hash)"""
    from edxml import EventCollection
    from edxml.error import EDXMLMergeConflictError
    try:
        r = EventCollection(M.make_events(et, group, rep), ontology=onto).resolve_collisions()
    except EDXMLMergeConflictError:
        return ('conflict', None)
    except Exception as e:
        return ('exception', type(e).__name__ + ': ' + str(e)[:200])
    if len(r) != 1:
        return ('exception', '%d events after resolve_collisions() of one collision group' % len(r))
    return ('ok', M.observe_event(r[0]))


def events_from_obs(obs, tag):
    return {'props': {k: list(v) for k, v in obs['props'].items()}, 'parents': list(obs['parents']), 'tag': tag}


# ---- stream mergers ---------------------------------------------------------
def run_stream(et, stream, n):
    """stream: list of (gid, event dict). n = 0: EDXMLEventMerger, n >= 1: BufferingEDXMLEventMerger(n)"""
    import edxml.cli.edxml_merge as mm
    from edxml import EDXMLPullParser
    children = [M.ontology_xml(et)] + [
        G.event_xml(M.TYPE, M.SRC, [(k, v) for k, vs in e['props'].items() for v in vs],
                    [('att', 'i%d' % e['tag'], 'e%d' % e['tag'])], e['parents']) for _, e in stream]
    data = G.document(children)
    out = io.BytesIO()

    class FakeStdout:
        buffer = out

        @staticmethod
        def write(s):
            pass

        @staticmethod
        def flush():
            pass
    old = sys.stdout
    sys.stdout = FakeStdout()
    try:
        if n == 0:
            with mm.EDXMLEventMerger() as mg:
                mg.parse(io.BytesIO(data))
        else:
            with mm.BufferingEDXMLEventMerger(n, 0) as mg:
                for line in io.BytesIO(data).readlines():
                    mg.feed(line)
    finally:
        sys.stdout = old
    got = []

    class P(EDXMLPullParser):
        def _parsed_event(self, e):
            got.append(M.observe_event(e))
    P().parse(io.BytesIO(out.getvalue()))
    return got


def gid_of(et, groups_hashed, obs):
    hashed = [p['name'] for p in et['props'] if p['merge'] == 'match']
    key = tuple((n, tuple(sorted(obs['props'].get(n, [])))) for n in hashed)
    return groups_hashed[key]


def replay(path):
    obj = json.load(open(path))
    if obj.get('kind') != 'failing-input':
        print('replay names a broken obligation:', obj.get('obligation'))
        return 0
    i = obj['input']
    onto = M.load_ontology(i['etype'])
    if 'perm_a' in i:
        a = merge_obs(onto, i['etype'], i['perm_a'])
        b = merge_obs(onto, i['etype'], i['perm_b'])
        print('merge(a)=', a[:2], '\nmerge(b)=', b[:2])
        return 1 if canon(i['etype'], *a[:2]) != canon(i['etype'], *b[:2]) else 0
    print(json.dumps(i)[:2000])
    return 1


def main(argv):
    if len(argv) > 1 and argv[0] == '--replay':
        return replay(argv[1])
    ck = Check(PID, ANCHORS)
    ck.trusted += ['independent orderings per data type tabulated as ranks (ties between spellings of one value broken by the spelling)',
                   'per hash, a stream merger splits the group into consecutive blocks: theorem C05_batching covers every such partition; '
                   'the executable stream models (Event/Stream.v) are tied to the real classes by correspondence only']
    ck.assumptions += ['event versions are canonical sequence strings', 'only properties with order-free strategies are compared (match, add, min, max, replace under a version)']
    ck.prove()
    rng = ck.rng
    terms, metas, seen = [], [], set()
    # directed: events of ONE version that differ only in whether an optional property has a value (with and without
    # an older instance that has it): the outcome — merged objects or conflict — must not depend on the arrival order
    ndir = 0
    for strat in ('replace', 'add', 'min', 'max'):
        for dt in sorted(M.POOLS)[:: 1 if ck.thorough() else 3]:
            if strat in ('min', 'max') and dt not in M.MINMAX_TYPES:
                continue
            pool = M.POOLS[dt][0]
            if len(pool) < 2:
                continue
            seqs = M.POOLS['sequence'][0]
            et = {'props': [{'name': 'p0', 'object_type': 'o0', 'data_type': dt, 'merge': strat, 'multivalued': False, 'optional': True},
                            {'name': 'v', 'object_type': 'ov', 'data_type': 'sequence', 'merge': 'max', 'multivalued': False, 'optional': False}],
                  'version': 'v'}
            try:
                onto = M.load_ontology(et)
            except Exception:
                continue
            lo, hi = sorted(seqs[:2], key=int)
            for with_old in (False, True):
                group = [{'props': {'p0': [pool[0]], 'v': [hi]}, 'parents': [], 'tag': 1},
                         {'props': {'v': [hi]}, 'parents': [], 'tag': 2}]
                if with_old:
                    group.append({'props': {'p0': [pool[1]], 'v': [lo]}, 'parents': [], 'tag': 3})
                base = None
                for perm in itertools.permutations(range(len(group))):
                    g = [group[j] for j in perm]
                    status, obs, _ = merge_obs(onto, et, g, 'EDXMLEvent')
                    ck.cov['evaluations'] += 1
                    ndir += 1
                    if status == 'exception':
                        ck.oracle_failures.append({'signature': 'exception/' + obs.split(':')[0], 'input': {'etype': et, 'perm_a': g, 'perm_b': g}, 'observed': obs})
                        break
                    c = canon(et, status, obs)
                    if base is None:
                        base, base_g = c, g
                    elif c != base:
                        ck.oracle_failures.append({'signature': 'permutation/%s/same-version-presence' % strat, 'input': {'etype': et, 'perm_a': base_g, 'perm_b': g},
                                                   'observed': 'merge(perm_a)=%r merge(perm_b)=%r' % (base, c)})
                        break
    ck.cov['directed_same_version_presence'] = '%d merges: optional property present in one of two instances of the top version, all arrival orders' % ndir
    n = ck.budget(150, 4000)
    for i in range(n):
        et = M.gen_etype(rng)
        group = M.gen_group(rng, et, size=rng.choice([2, 3, 3, 4, 4, 5]))
        onto = M.load_ontology(et)
        perms = list(itertools.permutations(range(len(group))))
        if len(perms) > 120:
            perms = rng.sample(perms, 120)
        base = None
        key = json.dumps([et, group], sort_keys=True)
        if key not in seen:
            ck.cov['distinct_nontrivial'] += 1
        seen.add(key)
        ck.dist('perm-group-size:%d' % len(group))
        sample_for_t2 = set(rng.sample(range(len(perms)), min(4, len(perms))))
        for k, perm in enumerate(perms):
            g = [group[j] for j in perm]
            status, obs, _ = merge_obs(onto, et, g, rng.choice(['EDXMLEvent', 'EventElement']) if k else 'ParsedEvent')
            ck.cov['evaluations'] += 1
            c = canon(et, status, obs)
            if status == 'exception':
                ck.oracle_failures.append({'signature': 'exception/' + obs.split(':')[0], 'input': {'etype': et, 'perm_a': g, 'perm_b': g}, 'observed': obs})
                break
            if k < 24:
                st_r, ob_r = resolve_obs(onto, et, g, 'EDXMLEvent' if k % 2 else 'EventElement')
                ck.cov['evaluations'] += 1
                if canon(et, st_r, ob_r, only_order_free=False) != canon(et, status, obs, only_order_free=False):
                    ck.oracle_failures.append({'signature': 'resolve-collisions-differs-from-merge/%s' % (st_r if st_r != status else 'content'),
                                               'input': {'etype': et, 'perm_a': g, 'perm_b': g},
                                               'observed': 'resolve_collisions()=%r merge_events()=%r' % (canon(et, st_r, ob_r, False), canon(et, status, obs, False))})
                    break
            if base is None:
                base, base_g = c, g
            elif c != base:
                diff = [p for p in et['props'] if p['merge'] in ORDER_FREE and c[0] == 'ok' == base[0] and
                        dict(c[1]).get(p['name']) != dict(base[1]).get(p['name'])]
                sig = 'permutation/' + ('%s/%s' % (diff[0]['merge'], M.family(diff[0]['data_type'])) if diff else
                                        ('conflict-status' if c[0] != base[0] else 'parents'))
                ck.oracle_failures.append({'signature': sig, 'input': {'etype': et, 'perm_a': base_g, 'perm_b': g},
                                           'observed': 'merge(perm_a)=%r merge(perm_b)=%r' % (base, c)})
                break
            if k in sample_for_t2:
                terms.append(coq((M.et_term(et), [M.ev_term(e) for e in g], M.rank_tables(et), M.result_term(status, obs))))
                metas.append({'etype': et, 'group': g})
        # duplicates
        e = group[0]
        for copies in (2, 3):
            st, ob, _ = merge_obs(onto, et, [e] * copies)
            ck.cov['evaluations'] += 1
            want = {k: sorted(v) for k, v in e['props'].items()}
            if st != 'ok' or {k: v for k, v in ob['props'].items()} != want or ob['parents'] != sorted(e['parents']):
                ck.oracle_failures.append({'signature': 'duplication', 'input': {'etype': et, 'perm_a': [e] * copies, 'perm_b': [e]},
                                           'observed': 'merge of %d copies = %r, event = %r' % (copies, ob, want)})
        # bracketings / incremental folding (event types without a version property)
        if not et['version']:
            st_all, ob_all, _ = merge_obs(onto, et, group)
            nn = len(group)
            for mask in range(1, 2 ** (nn - 1)):
                blocks, cur = [], [group[0]]
                for j in range(1, nn):
                    if mask >> (j - 1) & 1:
                        blocks.append(cur)
                        cur = []
                    cur.append(group[j])
                blocks.append(cur)
                partial = []
                for bi, b in enumerate(blocks):
                    st, ob, _ = merge_obs(onto, et, b)
                    partial.append(events_from_obs(ob, b[0]['tag']))
                st2, ob2, _ = merge_obs(onto, et, partial)
                ck.cov['evaluations'] += 1
                ck.dist('bracketings')
                if canon(et, st2, ob2) != canon(et, st_all, ob_all):
                    ck.oracle_failures.append({'signature': 'bracketing', 'input': {'etype': et, 'perm_a': group, 'perm_b': partial, 'blocks': blocks},
                                               'observed': 'merge(all)=%r merge(partial merges)=%r' % (canon(et, st_all, ob_all), canon(et, st2, ob2))})
                    break
            # fold one at a time
            acc = group[0]
            for e2 in group[1:]:
                st, ob, _ = merge_obs(onto, et, [acc, e2])
                acc = events_from_obs(ob, acc['tag'])
            if canon(et, 'ok', {'props': {k: sorted(v) for k, v in acc['props'].items()}, 'parents': sorted(acc['parents'])}) != canon(et, st_all, ob_all):
                ck.oracle_failures.append({'signature': 'incremental-fold', 'input': {'etype': et, 'perm_a': group, 'perm_b': [acc]},
                                           'observed': 'fold=%r all=%r' % (acc, ob_all)})
    bad, errs = run_cases(PID, M.IMPORTS, CASE_T, terms, AGREE, shard=150, tag='perm')
    for i in bad[:10]:
        ck.corr_failures.append({'case': metas[i], 'model': 'merge result differs'})
    # ---- stream mergers
    sterms, smetas = [], []
    ns = ck.budget(40, 800)
    for i in range(ns):
        et = M.gen_etype(rng, force_version=False, add_multi=True)
        ngroups = rng.choice([1, 2, 3])
        stream, groups_hashed = [], {}
        hashed = [p['name'] for p in et['props'] if p['merge'] == 'match']
        tag = 1
        for gi in range(ngroups):
            for _try in range(5):
                g = M.gen_group(rng, et, size=rng.choice([1, 2, 3, 4]))
                key = tuple((nm, tuple(sorted(g[0]['props'].get(nm, [])))) for nm in hashed)
                if key not in groups_hashed:
                    break
            if key in groups_hashed:
                continue
            groups_hashed[key] = len(groups_hashed) + 1
            for e in g:
                e['tag'] = tag
                tag += 1
                stream.append((groups_hashed[key], e))
        rng.shuffle(stream)
        onto = M.load_ontology(et)
        logical_ref = {}
        for gid in set(g for g, _ in stream):
            st, ob, _ = merge_obs(onto, et, [e for g, e in stream if g == gid])
            logical_ref[gid] = canon(et, st, ob)
        for nbuf in [0] + list(range(1, len(stream) + 2)):
            try:
                outs = run_stream(et, stream, nbuf)
            except Exception as ex:
                ck.oracle_failures.append({'signature': 'stream-exception/' + type(ex).__name__, 'input': {'etype': et, 'stream': stream, 'buffer': nbuf}, 'observed': repr(ex)})
                continue
            ck.cov['evaluations'] += 1
            ck.dist('stream-buffer:%s' % ('unbuffered' if nbuf == 0 else 'n<=len' if nbuf <= len(stream) else 'n>len'))
            tagged = [(gid_of(et, groups_hashed, o), o) for o in outs]
            # oracle: final logical events = merge of everything, per hash
            for gid, ref in logical_ref.items():
                mine = [events_from_obs(o, max(o['tag'], 1)) for g, o in tagged if g == gid]
                if not mine:
                    ck.oracle_failures.append({'signature': 'stream/logical-event-lost/' + ('unbuffered' if nbuf == 0 else 'buffered'),
                                               'input': {'etype': et, 'stream': stream, 'buffer': nbuf}, 'observed': 'no output event for hash group %d' % gid})
                    continue
                st, ob, _ = merge_obs(onto, et, mine)
                if canon(et, st, ob) != ref:
                    ck.oracle_failures.append({'signature': 'stream/logical-event-differs/' + ('unbuffered' if nbuf == 0 else 'buffered'),
                                               'input': {'etype': et, 'stream': stream, 'buffer': nbuf},
                                               'observed': 'group %d: %r expected %r' % (gid, canon(et, st, ob), ref)})
            if nbuf == 0 and len(outs) != len(logical_ref):
                ck.oracle_failures.append({'signature': 'stream/unbuffered-output-count', 'input': {'etype': et, 'stream': stream, 'buffer': 0},
                                           'observed': '%d output events for %d hashes' % (len(outs), len(logical_ref))})
            out_term = C('Some', [('g%d' % g, C('Build_mevent', [(k, v) for k, v in o['props'].items()], o['parents'], max(o['tag'], 0))) for g, o in tagged])
            from common.core import Nat
            sterms.append(coq((M.et_term(et), [('g%d' % g, M.ev_term(e)) for g, e in stream], M.rank_tables(et), Nat(nbuf), out_term)))
            smetas.append({'etype': et, 'stream': stream, 'buffer': nbuf})
        ck.sample({'etype': et, 'stream': stream[:4]}, limit=2)
    bad2, errs2 = run_cases(PID, STREAM_IMPORTS, STREAM_T, sterms, STREAM_AGREE, shard=60, tag='stream')
    for i in bad2[:10]:
        ck.corr_failures.append({'case': smetas[i], 'model': 'stream merger output differs'})
    for e in (errs + errs2)[:3]:
        ck.corr_failures.append({'coq_error': e})
    ck.cov['traces_validated_against_impl'] = len(terms) + len(sterms)
    ck.cov['disagreements_checked'] = len(bad) + len(bad2)
    ck.cov['rule'] = ('groups of 2-5 colliding events: ALL permutations (<=120), 2 and 3 copies, ALL partitions into consecutive blocks '
                      '(bracketings) and the one-at-a-time fold; streams of 1-3 hash groups through EDXMLEventMerger and '
                      'BufferingEDXMLEventMerger with every buffer size 1..n+1; distinct by (event type, group)')
    ck.cov['exhaustive_small_scope'] = 'all permutations / all consecutive partitions of each generated group'
    return ck.finish()


if __name__ == '__main__':
    sys.exit(main(sys.argv[1:]))
