"""C04 — merging follows each merge strategy and preserves event identity and validity."""
import json, sys
from common.core import Check, C, coq, run_cases, Raw
import mergelib as M

PID = 'C04'
ANCHORS = ['edxml/ontology/event_type.py', 'edxml/event_collection.py', 'edxml/error.py']
CASE_T = 'etype * list mevent * list (str * list (str * Z)) * option mevent'


def agree(variant):
    return ('fun c => match c with (et, evs, tbl, out) => '
            'result_eqb (merge (rank_table tbl) %s et evs) out end' % variant)


def version_of(et, e):
    return int(e['props'][et['version']][0]) if et['version'] else 0


def expected_conflict(et, group):
    if not et['version']:
        return False
    names = [p['name'] for p in et['props']]
    for a in group:
        for b in group:
            if version_of(et, a) == version_of(et, b):
                if any(set(a['props'].get(n, [])) != set(b['props'].get(n, [])) for n in names):
                    return True
    return False


def oracle(et, group, status, obs, merged, onto, rep):
    """the statement, clause by clause, on the implementation's result"""
    fails = []
    conf = expected_conflict(et, group)
    card = lambda p: 'multi' if p['multivalued'] else 'single'
    if status == 'exception':
        fails.append(('exception/%s/%s' % (obs.split(':')[0], 'conflict-group' if conf else '+'.join(sorted(
            {p['merge'] + ':' + M.family(p['data_type']) for p in et['props'] if p['merge'] in ('min', 'max') and 'currency' in p['data_type']})) or 'other'),
            obs))
        return fails
    if conf != (status == 'conflict'):
        fails.append(('conflict/%s' % ('missed' if conf else 'spurious'), 'expected conflict=%s, got %s' % (conf, status)))
        return fails
    if status == 'conflict':
        return fails
    order = sorted(range(len(group)), key=lambda i: version_of(et, group[i]))   # stable
    ordered = [group[i] for i in order]
    if obs['type'] != M.TYPE or obs['source'] != M.SRC:
        fails.append(('type-source', repr(obs)))
    allparents = sorted({h for e in group for h in e['parents']})
    if obs['parents'] != allparents:
        fails.append(('parents-union', 'got %r expected %r' % (obs['parents'], allparents)))
    for p in et['props']:
        n, s = p['name'], p['merge']
        got = set(obs['props'].get(n, []))
        sets = [set(e['props'].get(n, [])) for e in ordered]
        allv = [v for e in ordered for v in e['props'].get(n, [])]
        key = M.POOLS[p['data_type']][1]
        sig = '%s/%s/%s' % (s, M.family(p['data_type']), card(p))
        if s == 'match':
            if got != sets[0]:
                fails.append(('strategy/match-unchanged/' + sig, '%s: got %r expected %r' % (n, sorted(got), sorted(sets[0]))))
        elif s == 'add':
            if got != set(allv):
                fails.append(('strategy/add-union/' + sig, '%s: got %r expected %r' % (n, sorted(got), sorted(set(allv)))))
        elif s in ('min', 'max'):
            ext = (min if s == 'min' else max)(key(v) for v in allv) if allv else None
            if len(got) != (1 if allv else 0) or (allv and (not got <= set(allv) or key(list(got)[0]) != ext)):
                # the statement only asks for AN extreme under the data type's ordering
                fails.append(('strategy/%s-extreme/' % s + sig, '%s: got %r from %r' % (n, sorted(got), allv)))
        elif s == 'replace':
            top = max(version_of(et, e) for e in group)
            cands = [set(e['props'].get(n, [])) for e in group if version_of(et, e) == top]
            if got not in cands:
                fails.append(('strategy/replace-highest-version/' + sig, '%s: got %r, highest-version objects %r' % (n, sorted(got), cands)))
        elif s == 'set':
            ne = [x for x in sets if x]
            if et['version']:
                exp = ne[0] if ne else set()
                if got != exp:
                    fails.append(('strategy/set-first-nonempty/' + sig, '%s: got %r expected %r' % (n, sorted(got), sorted(exp))))
            elif (got not in ne) if ne else bool(got):
                fails.append(('strategy/set-first-nonempty/' + sig, '%s: got %r not an instance object set %r' % (n, sorted(got), ne)))
        else:  # any
            ne = [x for x in sets if x]
            if (got not in ne) if ne else bool(got):
                fails.append(('strategy/any-one-instance-set/' + sig, '%s: got %r, instance sets %r' % (n, sorted(got), ne)))
    if set(obs['props']) - {p['name'] for p in et['props']}:
        fails.append(('undeclared-property', repr(obs['props'])))
    # identity and validity
    etype = onto.get_event_type(M.TYPE)
    first = M.make_events(et, group[:1], 'EDXMLEvent')[0]
    h0, h1 = first.compute_sticky_hash(etype), merged.compute_sticky_hash(etype)
    if h0 != h1 and not any(f[0].startswith('strategy/match') for f in fails):
        fails.append(('hash-preserved', '%s -> %s' % (h0, h1)))
    add_agree = all(len({tuple(sorted(e['props'].get(p['name'], []))) for e in group if e['props'].get(p['name'])}) <= 1
                    for p in et['props'] if p['merge'] == 'add' and not p['multivalued'])
    if add_agree and not fails:
        from edxml.event_validator import EventValidator
        v = EventValidator(onto)
        if all(v.is_valid(x) for x in M.make_events(et, group, rep)) and not v.is_valid(merged):
            fails.append(('validity-preserved', str(v.get_last_error())[:300] if hasattr(v, 'get_last_error') else 'merged event invalid'))
    return fails


def case_term(et, group, status, obs):
    return coq((M.et_term(et), [M.ev_term(e) for e in group], M.rank_tables(et), M.result_term(status, obs)))


def run_one(ck, rng, et, group, rep, via_collection=False):
    onto = M.load_ontology(et)
    events = M.make_events(et, group, rep)
    if via_collection:
        from edxml.event_collection import EventCollection
        from edxml.error import EDXMLMergeConflictError
        coll = EventCollection(events, ontology=onto)
        try:
            out = coll.resolve_collisions()
            status, obs, merged = ('ok', M.observe_event(out[0]), out[0]) if len(out) == 1 else ('exception', 'resolve_collisions returned %d events' % len(out), None)
        except EDXMLMergeConflictError:
            status, obs, merged = 'conflict', None, None
        except Exception as e:
            status, obs, merged = 'exception', type(e).__name__ + ': ' + str(e)[:200], None
    else:
        status, obs, merged = M.run_merge(onto, events)
    return onto, status, obs, merged


def replay(path):
    obj = json.load(open(path))
    if obj.get('kind') != 'failing-input':
        print('replay names a broken obligation:', obj.get('obligation'))
        return 0
    i = obj['input']
    onto, status, obs, merged = run_one(None, None, i['etype'], i['group'], i['rep'], i.get('via_collection', False))
    fails = oracle(i['etype'], i['group'], status, obs, merged, onto, i['rep'])
    print('input:', json.dumps(i))
    print('observed:', status, obs)
    print('oracle failures:', fails)
    return 1 if fails else 0


def main(argv):
    if len(argv) > 1 and argv[0] == '--replay':
        return replay(argv[1])
    ck = Check(PID, ANCHORS)
    ck.trusted += ['independent orderings per data type in the harness (int, Decimal/Fraction, float, lexicographic datetime) tabulated as ranks for the model',
                   'lxml parsing used to obtain ParsedEvent instances; EventValidator for the validity clause']
    ck.assumptions += ['event versions are canonical sequence strings (int(v) equal iff the strings are equal)',
                       'attachments of later instances are not asserted (not in the statement)']
    ck.prove()
    n = ck.budget(1200, 40000)
    terms, metas, seen = [], [], set()
    rng = ck.rng
    for i in range(n):
        et = M.gen_etype(rng)
        group = M.gen_group(rng, et)
        rep = rng.choice(['EDXMLEvent', 'EventElement', 'ParsedEvent'])
        via = rng.random() < 0.25
        try:
            onto, status, obs, merged = run_one(ck, rng, et, group, rep, via)
        except Exception as e:
            ck.oracle_failures.append({'signature': 'harness-exception/' + type(e).__name__, 'input': {'etype': et, 'group': group, 'rep': rep}, 'observed': repr(e)})
            continue
        ck.cov['evaluations'] += 1
        inp = {'etype': et, 'group': group, 'rep': rep, 'via_collection': via}
        key = json.dumps([et, group], sort_keys=True)
        if key not in seen and len(group) >= 2:
            ck.cov['distinct_nontrivial'] += 1
        seen.add(key)
        ck.dist('status:' + status)
        ck.dist('rep:' + rep)
        ck.dist('size:%d' % len(group))
        for p in et['props']:
            ck.dist('strategy:' + p['merge'])
        ck.sample({'input': inp, 'observed': [status, obs]}, limit=3)
        for sig, detail in oracle(et, group, status, obs, merged, onto, rep):
            ck.oracle_failures.append({'signature': sig, 'input': inp, 'observed': detail})
        if status != 'exception':
            terms.append(case_term(et, group, status, obs))
            metas.append(inp)
    variant = 'FirstSet'
    bad, errs = run_cases(PID, M.IMPORTS, CASE_T, terms, agree('FirstSet'), shard=150, tag='firstset')
    if bad or errs:
        bad_f, errs_f = run_cases(PID, M.IMPORTS, CASE_T, terms, agree('FirstValue'), shard=150, tag='firstvalue')
        # the FirstValue variant depends on set iteration order: agreement is only meaningful when it is total
        if not bad_f and not errs_f:
            variant = 'FirstValue (pinned defect: match/any keep one object)'
        else:
            variant = 'none'
            for i in bad[:10]:
                ck.corr_failures.append({'case': metas[i], 'model': 'merge result differs (FirstSet%s)' % (' and FirstValue' if i in bad_f else '')})
            for e in (errs + errs_f)[:3]:
                ck.corr_failures.append({'coq_error': e})
    ck.cov['variant_matched'] = variant
    ck.cov['traces_validated_against_impl'] = len(terms)
    ck.cov['disagreements_checked'] = len(bad)
    ck.cov['rule'] = ('event types: every strategy x admissible data type (int/tinyint/bigint/decimal/currency/float/double/datetime/'
                      'sequence/string) x cardinality, with and without version property; groups of 1-6 colliding events incl. duplicates, '
                      'empty optional properties, parents, same-version conflicts; via merge_events and resolve_collisions; three event '
                      'classes; non-trivial = group of >=2 events; distinct by (event type, group)')
    return ck.finish()


if __name__ == '__main__':
    sys.exit(main(sys.argv[1:]))
