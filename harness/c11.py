"""C11 — ontology update yields the element-wise newest definitions and nothing else."""
import copy, io, json, sys
from lxml import etree
from common.core import Check, C, coq, run_cases, Raw, compile_defs
from common import gen_doc as G
import ontolib as OL

PID = 'C11'
ANCHORS = ['edxml/ontology/ontology.py', 'edxml/ontology/event_type.py', 'edxml/ontology/event_property.py', 'edxml/ontology/object_type.py',
           'edxml/ontology/concept.py', 'edxml/ontology/event_source.py']
IMPORTS = 'From EdxmlVerif Require Import Base.Prelude Onto.Tree Onto.Kinds Onto.Update.'

# edits that are NOT valid upgrades even with a version bump (from the EDXML upgrade rules, independent of the model)
INVALID = {'g.regex-hard=zx|y', 'g.regex-hard=other', 'o.regex-hard', 'o.regex-hard=empty', 'o.regex-hard=x|y', 'o.regex-hard=zx|y', 'o.regex-hard=x|y|z', 'o.data-type', 'e.enum-prefix', 'e.enum-b', 'e.enum-other',
           'ta.+version-property', 'ta.+sequence', 'ta.+mandatory-property', 'ta.p.optional+object-type', 'ta.p.optional+merge', 'ta.q.description+single', 'ta.attachment-renamed', 'ta.+optional+mandatory-property', 'ta.+mandatory+optional-property', 'ta.-property+optional-property', 'ta.+optional-datetime-property', 'ta.-property', 'ta.-relation',
           'ta.-attachment', 'ta.-parent', 'ta.p.merge', 'ta.p.object-type', 'ta.q.single', 'ta.q.mandatory', 'ta.q.-concept',
           'ta.q.c.extension', 'ta.inter.target-concept=c.x', 'ta.doc.media-type=text/html', 'ta.doc.media-type=Text/Plain',
           'ta.doc.encoding=base64', 'ta.parent.property-map'}
# e.enum-prefix is accepted by the SDK (string prefix test) although it renames a value: that is C10's subject, not used here
SKIP = {'e.enum-prefix'}


def element_of(e):
    kind, name = e[0], e[1]
    if kind == 'object-type':
        return 'ot:' + name.split('.')[0]
    if kind == 'concept':
        return 'concept:c'
    if kind == 'source':
        return 'source:/s/'
    return 'et:ta'


ADDITIONS = [
    ('add', 'ot:zz', lambda o: o['object-types'].append(OL.OT('zz', 'number:int:signed'))),
    ('add', 'concept:zz', lambda o: o['concepts'].append(OL.CONCEPT('zz'))),
    ('add', 'source:/zz/', lambda o: o['sources'].append(OL.SOURCE('/zz/'))),
    ('add', 'et:tz', lambda o: o['event-types'].append(OL.ET('tz', [OL.PROP('p', 'o', merge='match', concepts=[OL.PC('c')]), OL.PROP('w', 'n', optional=True)],
                                                             relations=[OL.REL('other', 'p', 'w')], attachments=[OL.ATT('doc')]))),
]


def gen_scenario(rng, E):
    valid = [e for e in E if e[1] not in INVALID and e[1] not in SKIP]
    invalid = [e for e in E if e[1] in INVALID and e[1] not in SKIP]
    kind = rng.choice(['one-sided', 'disjoint', 'disjoint', 'conflict', 'invalid', 'chain', 'identical'])
    base = OL.base_ontology()

    def apply(o, edits, bump):
        return OL.apply_edits(o, edits, bump)
    try:
        if kind == 'identical':
            return kind, [base, copy.deepcopy(base)], False
        if kind == 'one-sided':
            es = rng.sample(valid, rng.randint(1, 3))
            b = apply(base, es, 2)
            for add in rng.sample(ADDITIONS, rng.randint(0, 2)):
                add[2](b)
            return kind, [base, b], False
        if kind == 'disjoint':
            e1 = rng.sample(valid, rng.randint(1, 2))
            els1 = {element_of(e) for e in e1}
            e2 = [e for e in rng.sample(valid, 6) if element_of(e) not in els1][:rng.randint(1, 2)]
            a, b = apply(base, e1, 2), apply(base, e2, rng.choice([2, 3]))
            adds = rng.sample(ADDITIONS, rng.randint(0, 3))
            for i, add in enumerate(adds):
                add[2](a if i % 2 else b)
            return kind, [a, b], False
        if kind == 'conflict':
            e1 = rng.choice(valid)
            same = [e for e in valid if element_of(e) == element_of(e1) and e[1] != e1[1] and e[1].rsplit('=', 1)[0] != e1[1].rsplit('=', 1)[0]]
            if not same:
                return gen_scenario(rng, E)
            e2 = rng.choice(same)
            v = rng.choice([None, 2])
            return kind, [apply(base, [e1], v), apply(base, [e2], v)], True
        if kind == 'invalid':
            e = rng.choice(invalid)
            return kind, [base, apply(base, [e], 2)], True
        if kind == 'chain':
            e1, e2 = rng.choice(valid), rng.choice(valid)
            if element_of(e1) != element_of(e2) or e1[1].rsplit('=', 1)[0] == e2[1].rsplit('=', 1)[0]:
                return gen_scenario(rng, E)
            b1 = apply(base, [e1], 2)
            b2 = apply(b1, [e2], 3)
            order = [base, b1, b2]
            rng.shuffle(order)
            return kind, order, False
    except (IndexError, KeyError, StopIteration):
        return gen_scenario(rng, E)


def canon(o):
    """element name -> canonical serialisation of its definition"""
    out = {}
    for x in o['object-types']:
        out['ot:' + x['name']] = json.dumps(x, sort_keys=True)
    for x in o['concepts']:
        out['concept:' + x['name']] = json.dumps(x, sort_keys=True)
    for x in o['sources']:
        out['source:' + x['uri']] = json.dumps(x, sort_keys=True)
    for x in o['event-types']:
        y = copy.deepcopy(x)
        if y.get('parent') and isinstance(y['parent'].get('property-map'), str):
            y['parent']['property-map'] = ','.join(sorted(y['parent']['property-map'].split(',')))       # a mapping: the order of its entries means nothing
        y['properties'] = sorted(y['properties'], key=lambda p: p['name'])
        for p in y['properties']:
            p['concepts'] = sorted(p['concepts'], key=lambda c: c['name'])
        y['relations'] = sorted((OL.norm_rel(r) for r in y['relations']), key=lambda r: (r['type'], r['source'], r['target']))
        y['attachments'] = sorted(y['attachments'], key=lambda a: a['name'])
        out['et:' + x['name']] = json.dumps(y, sort_keys=True)
    return out


def version_of(ser):
    return json.loads(ser)['version']


def load(o):
    O = OL.load_element(o)
    O.validate()
    return O


def xml_element(o):
    return etree.fromstring(G.document([OL.onto_xml(o)]))[0]


def do_update(A, b_def, path):
    from edxml.error import EDXMLOntologyValidationError
    try:
        if path == 'object':
            B = load(b_def)
            A.update(B)
            return 'ok', B
        A.update(xml_element(b_def))
        return 'ok', None
    except EDXMLOntologyValidationError as e:
        return 'error', None
    except Exception as e:
        return 'exception:' + type(e).__name__ + ':' + str(e)[:120], None


def snapshot(O):
    return OL.from_xml(O.generate_xml())


def run_scenario(kind, seq, path):
    """update seq[0] with seq[1], seq[2] ...; returns statuses, final dict, oracle failures"""
    fails = []
    A = load(seq[0])
    statuses, Bs = [], []
    prev = canon(snapshot(A))
    for b_def in seq[1:]:
        st, B = do_update(A, b_def, path)
        statuses.append(st)
        if st != 'ok':
            break
        Bs.append((B, b_def))
        cur = canon(snapshot(A))
        for k, ser in prev.items():
            if k not in cur:
                fails.append(('element-lost/%s' % k.split(':')[0], '%s disappeared' % k))
            elif version_of(cur[k]) < version_of(ser):
                fails.append(('version-decreased/%s' % k.split(':')[0], '%s: %d -> %d' % (k, version_of(ser), version_of(cur[k]))))
        prev = cur
        if B is not None and canon(snapshot(B)) != canon(b_def):
            fails.append(('source-ontology-modified/%s' % path, 'B changed by A.update(B)'))
    return statuses, A, Bs, fails


def expected_result(seq):
    """element-wise newest definition (independent of the SDK): highest version wins; equal versions must agree"""
    out = {}
    for o in seq:
        for k, ser in canon(o).items():
            if k not in out or version_of(ser) > version_of(out[k]):
                out[k] = ser
    return out


def oracle(kind, seq, expect_error, path, statuses, A, Bs):
    fails = []
    ok = all(s == 'ok' for s in statuses)
    bad = [s for s in statuses if s.startswith('exception')]
    if bad:
        return [('foreign-exception/%s' % bad[0].split(':')[1], bad[0])]
    if expect_error and ok:
        return [('incompatible-accepted/%s/%s' % (kind, path), 'update succeeded although definitions are incompatible')]
    if not expect_error and not ok:
        return [('compatible-rejected/%s/%s' % (kind, path), 'update raised although definitions are compatible')]
    if not ok:
        return fails
    got = canon(snapshot(A))
    want = expected_result(seq)
    if got != want:
        diff = [k for k in set(got) | set(want) if got.get(k) != want.get(k)]
        fails.append(('not-elementwise-newest/%s/%s/%s' % (kind, diff[0].split(':')[0], path), 'differs for %s: got %s expected %s' % (diff, got.get(diff[0]), want.get(diff[0]))))
        return fails
    # idempotence
    before = canon(snapshot(A))
    st, _ = do_update(A, seq[-1], path)
    if st != 'ok' or canon(snapshot(A)) != before:
        fails.append(('not-idempotent/%s/%s' % (kind, path), 'repeating the update changed A (%s)' % st))
    return fails


def independence_probe(kind, seq, path):
    """after A.update(B): a mutation through A must not show in B and vice versa"""
    fails = []
    if path != 'object' or len(seq) != 2:
        return fails
    A, B = load(seq[0]), load(seq[1])
    A.update(B)
    b_before, a_before = canon(snapshot(B)), canon(snapshot(A))
    # mutate every element reachable from A
    for name in list(A.get_object_type_names()):
        A.get_object_type(name).set_description('changed through A')
    for name in list(A.get_concept_names()):
        A.get_concept(name).set_description('changed through A')
    for uri in list(A.get_event_source_uris()):
        A.get_event_source(uri).set_description('changed through A')
    for name in list(A.get_event_type_names()):
        et = A.get_event_type(name)
        et.set_description('changed through A')
        for p in et.get_properties().values():
            p.set_description('changed through A')
    b_after = canon(snapshot(B))
    # a later, legitimate upgrade of B must still be accepted by A (sub-elements must compare with their own event type's version)
    if 'et:ta' in b_before and b_after == b_before:
        from edxml.error import EDXMLOntologyValidationError
        A2, B2 = load(seq[0]), load(seq[1])
        A2.update(B2)
        et = B2.get_event_type('ta')
        if et is not None and 'p' in et:
            et.set_version(max(et.get_version(), A2.get_event_type('ta').get_version()) + 1)      # newer than both
            et['p'].set_description('later change')
            try:
                A2.update(B2)
                if A2.get_event_type('ta')['p'].get_description() != 'later change':
                    fails.append(('later-upgrade-not-applied', 'A kept the old property description'))
            except EDXMLOntologyValidationError as e:
                fails.append(('later-upgrade-rejected/sub-element-compared-with-foreign-event-type-version',
                              'A.update(B); B upgraded in place to the next version; A.update(B) raised: ' + str(e)[:150]))
    if b_after != b_before:
        ks = sorted(k for k in b_before if b_after.get(k) != b_before[k])
        how = 'adopted' if any(k not in canon(seq[0]) for k in ks) else 'updated'
        fails.append(('not-independent/mutating-A-changes-B/%s-%s' % (how, ks[0].split(':')[0]), 'B elements changed: %s' % ks))
    return fails


def replay(path):
    obj = json.load(open(path))
    if obj.get('kind') != 'failing-input':
        print('replay names a broken obligation:', obj.get('obligation'))
        return 0
    i = obj['input']
    statuses, A, Bs, fails = run_scenario(i['scenario'], i['sequence'], i['path'])
    fails += oracle(i['scenario'], i['sequence'], i['expect_error'], i['path'], statuses, A, Bs)
    fails += independence_probe(i['scenario'], i['sequence'], i['path'])
    print('statuses', statuses, 'oracle failures:', fails)
    return 1 if fails else 0


def main(argv):
    if len(argv) > 1 and argv[0] == '--replay':
        return replay(argv[1])
    ck = Check(PID, ANCHORS)
    ck.trusted += ['the classification of edits into valid / invalid upgrades used by the oracle is written from the EDXML upgrade rules',
                   'the value-level model does not represent object identity: independence after an update is decided by the oracle on the implementation']
    ck.assumptions += ['a failed update may leave A partially updated (the statement only requires the error)',
                       'no ontology bricks registered']
    ck.prove()
    rng = ck.rng
    E = OL.edit_catalogue()
    n = ck.budget(270, 2000)          # every scenario contributes whole ontology definitions to one Coq file: 2000 keeps it below 20 MB
    terms, metas, seen = [], [], set()
    defs = {}

    def dname(o):
        t = coq(OL.onto_term(o))
        if t not in defs:
            defs[t] = 'on_%d' % len(defs)
        return defs[t]
    directed = []
    b_all = copy.deepcopy(OL.base_ontology())
    for add in ADDITIONS:
        add[2](b_all)
    directed.append(('one-sided', [OL.base_ontology(), b_all], False))          # every kind of element adopted
    for add in ADDITIONS:
        b1 = OL.base_ontology()
        add[2](b1)
        directed.append(('one-sided', [OL.base_ontology(), b1], False))
    for e in E:
        if e[1] in SKIP:
            continue
        try:
            b1 = OL.apply_edits(OL.base_ontology(), [e], 2)
        except (IndexError, KeyError, StopIteration):
            continue
        directed.append(('invalid' if e[1] in INVALID else 'one-sided', [OL.base_ontology(), b1], e[1] in INVALID))
    # a relation of every type added in version 2, followed by another upgrade of the same event type in version 3
    for rtype in ('name', 'description', 'container', 'original', 'inter', 'intra', 'other'):
        for src, tgt in (('q', 'p'), ('r', 'q')):
            b1 = OL.base_ontology()
            kw = {'source-concept': 'c', 'target-concept': 'c.x'} if rtype in ('inter', 'intra') and (src, tgt) == ('q', 'p') else {}
            if rtype in ('inter', 'intra') and not kw:
                continue
            OL._et(b1)['relations'].append(OL.REL(rtype, src, tgt, **kw))
            OL._et(b1)['version'] = 2
            b2 = copy.deepcopy(b1)
            OL._et(b2)['description'] = 'third version'
            OL._et(b2)['version'] = 3
            directed.append(('chain', [OL.base_ontology(), b1, b2], False))
            directed.append(('chain', [b1, OL.base_ontology(), b2], False))
    # a definition that differs from the other one in its version only is still the newer one
    for sel in (lambda o: OL._ot(o, 'o'), lambda o: o['concepts'][0], lambda o: o['sources'][0], OL._et):
        for v in (2, 3):
            b1 = OL.base_ontology()
            sel(b1)['version'] = v
            directed += [('one-sided', [OL.base_ontology(), b1], False), ('one-sided', [b1, OL.base_ontology()], False)]
            if v == 3:
                b0 = OL.base_ontology()
                sel(b0)['version'] = 2
                directed.append(('chain', [OL.base_ontology(), b1, b0], False))      # v1, v3, v2: ends at v3
    # the same definitions, the parent's property map written in another order: nothing to update, nothing to refuse
    m1, m2 = OL.two_entry_parent('r:k2,p:k'), OL.two_entry_parent('p:k,r:k2')
    directed += [('identical', [m1, m2], False), ('identical', [m2, m1], False)]
    m3 = copy.deepcopy(m2)
    OL._et(m3)['description'] = 'second version'
    OL._et(m3)['version'] = 2
    directed += [('one-sided', [m1, m3], False), ('one-sided', [m3, m1], False)]
    Eby = {e[1]: e for e in E}
    directed.append(('one-sided', [OL.base_ontology(), OL.apply_edits(OL.base_ontology(), [Eby['ta.p.description']], 2)], False))
    for it in range(n):
        kind, seq, expect_error = directed[it] if it < len(directed) else gen_scenario(rng, E)
        try:
            for o in seq:
                load(o)
        except Exception:
            ck.dist('scenario-invalid-ontology')
            continue
        key = json.dumps(seq, sort_keys=True)
        if key not in seen and kind != 'identical':
            ck.cov['distinct_nontrivial'] += 1
        seen.add(key)
        for path in ('object', 'xml'):
            statuses, A, Bs, fails = run_scenario(kind, seq, path)
            ck.cov['evaluations'] += 1
            ck.dist('scenario:' + kind)
            ck.dist('path:' + path)
            ck.dist('status:' + ('ok' if all(s == 'ok' for s in statuses) else statuses[-1].split(':')[0]))
            inp = {'scenario': kind, 'sequence': seq, 'path': path, 'expect_error': expect_error}
            fails += oracle(kind, seq, expect_error, path, statuses, A, Bs)
            if not fails and all(s == 'ok' for s in statuses):
                fails += independence_probe(kind, seq, path)
            for sig, detail in fails:
                ck.oracle_failures.append({'signature': sig, 'input': inp, 'observed': detail})
            # an incompatible pair is refused whichever of the two is updated with the other
            if len(seq) == 2 and expect_error and not fails:
                st_r, _, _, _ = run_scenario(kind, [seq[1], seq[0]], path)
                ck.cov['evaluations'] += 1
                if all(x == 'ok' for x in st_r):
                    ck.oracle_failures.append({'signature': 'incompatible-accepted/%s-reversed/%s' % (kind, path),
                                               'input': {'scenario': kind, 'sequence': [seq[1], seq[0]], 'path': path, 'expect_error': True},
                                               'observed': 'updating the newer / other ontology with this one succeeded although the definitions are incompatible'})
            # commutativity (two ontologies): update(B, A) must give the same definitions
            if len(seq) == 2 and all(s == 'ok' for s in statuses) and not fails:
                st2, A2, _, _ = run_scenario(kind, [seq[1], seq[0]], path)
                if not all(s == 'ok' for s in st2) or canon(snapshot(A2)) != canon(snapshot(A)):
                    ck.oracle_failures.append({'signature': 'not-commutative/%s/%s' % (kind, path), 'input': inp,
                                               'observed': 'update(B,A) differs from update(A,B): %s' % st2})
            if not any(s.startswith('exception') for s in statuses):
                res = Raw('(Some %s)' % dname(snapshot(A))) if all(s == 'ok' for s in statuses) else Raw('(@None onto)')
                terms.append(coq(([Raw(dname(o)) for o in seq], res)))
                metas.append(inp)
        ck.sample({'scenario': kind, 'elements_changed': [k for k in canon(seq[-1]) if canon(seq[-1]).get(k) != canon(seq[0]).get(k)]}, limit=4)
    text = '\n'.join('Definition %s : onto := %s.' % (nm, t) for t, nm in defs.items())
    shared, out = compile_defs(PID, IMPORTS, text, timeout=1500)
    if shared is None:
        ck.corr_failures.append({'coq_error': out[-2000:] or 'the shared definitions did not compile within the time limit'})
        bad, errs = [], []
    else:
        agree = ('fun c => match c with (seq, res) => oonto_equiv (match seq with [] => None | a :: rest => '
                 'fold_left (fun acc b => match acc with Some x => onto_update x b | None => None end) rest (Some a) end) res end')
        bad, errs = run_cases(PID, IMPORTS, 'list onto * option onto', terms, agree, shard=300, defs=shared)
    for i in bad[:10]:
        ck.corr_failures.append({'case': {k: metas[i][k] for k in ('scenario', 'path', 'expect_error')}, 'model': 'result of the update sequence differs'})
    for e in errs[:3]:
        ck.corr_failures.append({'coq_error': e})
    ck.cov['traces_validated_against_impl'] = len(terms)
    ck.cov['disagreements_checked'] = len(bad)
    ck.cov['rule'] = ('pairs / sequences of ontologies derived from a common ancestor: one-sided valid upgrades, upgrades of disjoint elements on both '
                      'sides plus additions, same-version conflicts, invalid upgrades, chains v1/v2/v3 in every update order, identical; both update '
                      'paths (Ontology instance, lxml element); oracle: error iff incompatible, element-wise newest, idempotent, commutative, monotone '
                      'versions, B untouched, A and B independent under later mutation')
    return ck.finish()


if __name__ == '__main__':
    sys.exit(main(sys.argv[1:]))
