"""T1 for C15: the leak sites of the parsing path, from the CURRENT source (Python ast).
For every create_from_xml of the ontology element classes, and for the parser functions that read raw attributes:
each  X.attrib['k']  (KeyError), each  int(...)  and  .set_version(...)  (ValueError), each call of the raw
ParsedEvent getters get_type_name / get_source_uri (KeyError) is a site; a site is guarded when it lies in a `try`
of the same function whose handler names that exception (or Exception) and raises an EDXML error.
Props/C15.v checks `every site is guarded` by reflection."""
import ast, os
from common.core import REPO, THEORIES, write_if_changed, coq, C

FILES = [('edxml/ontology/object_type.py', 'ObjectType', ['create_from_xml']), ('edxml/ontology/concept.py', 'Concept', ['create_from_xml']),
         ('edxml/ontology/event_source.py', 'EventSource', ['create_from_xml']), ('edxml/ontology/event_type.py', 'EventType', ['create_from_xml']),
         ('edxml/ontology/event_property.py', 'EventProperty', ['create_from_xml']), ('edxml/ontology/event_property_concept.py', 'PropertyConcept', ['create_from_xml']),
         ('edxml/ontology/event_property_relation.py', 'PropertyRelation', ['create_from_xml']),
         ('edxml/ontology/event_type_attachment.py', 'EventTypeAttachment', ['create_from_xml']), ('edxml/ontology/event_type_parent.py', 'EventTypeParent', ['create_from_xml']),
         ('edxml/parser.py', 'EDXMLParserBase', ['_parse_edxml', '_EDXMLParserBase__parse_event', '__parse_event'])]
RAISES = {'subscript': 'KeyError', 'int': 'ValueError'}


def handler_catches(h, exc):
    if h.type is None:
        return True
    names = [n.id for n in ast.walk(h.type) if isinstance(n, ast.Name)]
    return exc in names or 'Exception' in names


def handler_raises_edxml(h):
    for n in ast.walk(h):
        if isinstance(n, ast.Raise) and n.exc is not None:
            f = n.exc.func if isinstance(n.exc, ast.Call) else n.exc
            if isinstance(f, ast.Name) and f.id.startswith('EDXML'):
                return True
    return False


def sites_of(fn):
    parents = {}
    for n in ast.walk(fn):
        for c in ast.iter_child_nodes(n):
            parents[c] = n

    def guarded(node, exc):
        cur = node
        while cur in parents:
            p = parents[cur]
            if isinstance(p, ast.Try) and cur in p.body:
                if any(handler_catches(h, exc) and handler_raises_edxml(h) for h in p.handlers):
                    return True
            cur = p
        return False
    out = []
    for n in ast.walk(fn):
        kind = None
        if isinstance(n, ast.Subscript) and isinstance(n.value, ast.Attribute) and n.value.attr == 'attrib' and isinstance(n.ctx, ast.Load):
            kind = 'subscript'
        elif isinstance(n, ast.Call) and isinstance(n.func, ast.Name) and n.func.id == 'int':
            kind = 'int'
        elif isinstance(n, ast.Call) and isinstance(n.func, ast.Attribute) and n.func.attr == 'set_version':
            kind = 'int'
        elif isinstance(n, ast.Call) and isinstance(n.func, ast.Attribute) and n.func.attr in ('get_type_name', 'get_source_uri') and \
                isinstance(n.func.value, ast.Name) and n.func.value.id in ('event', 'elem'):
            kind = 'subscript'
        if kind:
            out.append((kind, guarded(n, RAISES[kind]), n.lineno))
    return out


def extract():
    rows, notes = [], []
    for path, cls, fns in FILES:
        try:
            tree = ast.parse(open(os.path.join(REPO, path)).read())
            cnode = next(n for n in ast.walk(tree) if isinstance(n, ast.ClassDef) and n.name == cls)
            found = 0
            for f in cnode.body:
                if isinstance(f, ast.FunctionDef) and f.name in fns:
                    found += 1
                    for kind, g, line in sites_of(f):
                        rows.append(('%s.%s' % (cls, f.name), kind, g, line))
            if not found:
                notes.append('%s: none of %s found' % (cls, fns))
        except Exception as e:
            notes.append('%s: %r' % (cls, e))
    return rows, notes


def generate():
    rows, notes = extract()
    lines = ['(* GENERATED on every run by harness/translate/c15.py — do not edit. *)', 'From Coq Require Import String.',
             'From EdxmlVerif Require Import Base.Prelude Parse.Safe.', 'Definition gen_sites : list site := [']
    lines.append(';\n'.join('  ' + coq(C('Build_site', fn, C('OSubscript' if k == 'subscript' else 'OInt'), g)) for fn, k, g, _ in rows))
    lines.append('].')
    lines.append('Definition gen_sites_ok : bool := %s.' % coq(not notes and len(rows) > 20))
    changed = write_if_changed(os.path.join(THEORIES, 'Generated', 'C15_gen.v'), '\n'.join(lines) + '\n')
    return rows, notes, changed


if __name__ == '__main__':
    rows, notes, _ = generate()
    for r in rows:
        if not r[2]:
            print('UNGUARDED', r)
    print(len(rows), notes)
