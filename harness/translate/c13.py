"""T1 for C13: facts the normaliser model depends on, regenerated on every run.
 (a) from the running interpreter: the Unicode decimal digits (int()/float()/Decimal() accept them) and the
     code points str.strip() removes — emitted as tables the model functions udigit / uspace read;
 (b) from the current source of edxml/ontology/data_type.py (Python ast): the padding expression of
     _normalize_base64, the accepted spellings of _normalize_boolean, the conversion expressions of the
     integer / float / decimal branches and the format string of format_utc_datetime.
Props/C13.v compares (b) with what the model implements, by reflexivity."""
import ast, os, sys, unicodedata
from common.core import REPO, THEORIES, write_if_changed, coq

SRC = 'edxml/ontology/data_type.py'


def digit_ranges():
    starts, c = [], 0
    while c < sys.maxunicode + 1:
        ch = chr(c)
        if unicodedata.decimal(ch, None) is not None:
            run = [unicodedata.decimal(chr(c + i), None) for i in range(10)]
            if run != list(range(10)) or unicodedata.decimal(chr(c + 10), None) is not None and unicodedata.decimal(chr(c + 10)) != 0:
                raise ValueError('decimal digits at U+%04X are not a run 0..9' % c)
            starts.append(c)
            c += 10
        else:
            c += 1
    return starts


def spaces():
    return [c for c in range(sys.maxunicode + 1) if chr(c).isspace()]


def _method(tree, name):
    for n in ast.walk(tree):
        if isinstance(n, ast.FunctionDef) and n.name == name:
            return n
    raise KeyError(name)


def source_facts():
    facts, notes = {}, []
    try:
        tree = ast.parse(open(os.path.join(REPO, SRC)).read())
    except Exception as e:
        return {}, ['cannot parse %s: %r' % (SRC, e)]

    def grab(key, fn):
        try:
            facts[key] = fn()
        except Exception as e:
            facts[key] = '?'
            notes.append('%s: %r' % (key, e))
    # value += (b'=' * (...)) in _normalize_base64
    grab('pad', lambda: next(ast.unparse(n.value) for n in ast.walk(_method(tree, '_normalize_base64')) if isinstance(n, ast.AugAssign)))
    # the tuples of _normalize_boolean
    grab('bool', lambda: ' | '.join(ast.unparse(n.comparators[0]) for n in ast.walk(_method(tree, '_normalize_boolean'))
                                    if isinstance(n, ast.Compare) and isinstance(n.ops[0], ast.In)))
    num = _method(tree, '_normalize_number')
    # every `fmt % expr` / helper call that builds an output string in _normalize_number
    grab('number', lambda: ' | '.join(sorted({ast.unparse(n) for n in ast.walk(num)
                                              if (isinstance(n, ast.BinOp) and isinstance(n.op, ast.Mod) and 'Invalid' not in ast.unparse(n.left)) or
                                              (isinstance(n, ast.Call) and isinstance(n.func, ast.Attribute) and n.func.attr == '_format_decimal')})))
    grab('decimal', lambda: ' | '.join(ast.unparse(n) for n in ast.walk(_method(tree, '_format_decimal'))
                                       if isinstance(n, ast.Call) and isinstance(n.func, ast.Name) and n.func.id == 'format'))
    grab('datetime', lambda: ' | '.join(ast.unparse(n.left) for n in ast.walk(_method(tree, 'format_utc_datetime'))
                                        if isinstance(n, ast.BinOp) and isinstance(n.op, ast.Mod)))
    grab('geo', lambda: ' | '.join(ast.unparse(n.left) for n in ast.walk(_method(tree, '_normalize_geo'))
                                   if isinstance(n, ast.BinOp) and isinstance(n.op, ast.Mod) and 'Invalid' not in ast.unparse(n.left)))
    return facts, notes


def generate():
    starts, sp = digit_ranges(), spaces()
    facts, notes = source_facts()
    lines = ['(* GENERATED on every run by harness/translate/c13.py — do not edit. *)',
             'From Coq Require Import String.', 'From EdxmlVerif Require Import Base.Prelude.',
             'Definition nd_starts : list N := %s.' % coq(starts),
             'Definition space_points : list N := %s.' % coq(sp),
             'Definition udigit (c : N) : option N :=',
             '  match find (fun s => (s <=? c)%N && (c <? s + 10)%N) nd_starts with Some s => Some (c - s)%N | None => None end.',
             'Definition uspace (c : N) : bool := existsb (N.eqb c) space_points.']
    for k in ('pad', 'bool', 'number', 'decimal', 'datetime', 'geo'):
        lines.append('Definition src_%s : str := %s.' % (k, coq(facts.get(k, '?'))))
    changed = write_if_changed(os.path.join(THEORIES, 'Generated', 'C13_gen.v'), '\n'.join(lines) + '\n')
    return facts, notes, changed


if __name__ == '__main__':
    f, n, _ = generate()
    for k, v in f.items():
        print(k, '=', v)
    print(n)
