"""T1 for C08: the attribute codec table of every ontology element class, derived from the CURRENT source
(Python ast) of generate_xml (how each attribute is written / when it is left out), create_from_xml and
__init__ (how it is read back and stored).  Fail-closed: a statement touching the attribute dictionary that
matches no pattern, or write and read sides that do not describe the same codec, make the class untranslatable
(gen_ok_<class> = false), which fails the reflexivity obligations of Props/C08.v."""
import ast, os
from common.core import REPO, THEORIES, write_if_changed, coq, C, Raw, Z

CLASSES = [('objtype', 'edxml/ontology/object_type.py', 'ObjectType'), ('concept', 'edxml/ontology/concept.py', 'Concept'),
           ('source', 'edxml/ontology/event_source.py', 'EventSource'), ('etype', 'edxml/ontology/event_type.py', 'EventType'),
           ('prop', 'edxml/ontology/event_property.py', 'EventProperty'), ('assoc', 'edxml/ontology/event_property_concept.py', 'PropertyConcept'),
           ('att', 'edxml/ontology/event_type_attachment.py', 'EventTypeAttachment'), ('parent', 'edxml/ontology/event_type_parent.py', 'EventTypeParent'),
           ('rel', 'edxml/ontology/event_property_relation.py', 'PropertyRelation')]


class Untranslatable(Exception):
    pass


def method(cls, name):
    for f in cls.body:
        if isinstance(f, ast.FunctionDef) and f.name == name:
            return f
    raise Untranslatable('no method %s' % name)


def is_self_attr(n):
    """self.__attr / self._attr"""
    return isinstance(n, ast.Attribute) and isinstance(n.value, ast.Name) and n.value.id == 'self' and n.attr in ('__attr', '_attr')


def sub_key(n, base_pred):
    """key k of  <base>[k]  when base satisfies base_pred"""
    if isinstance(n, ast.Subscript) and base_pred(n.value) and isinstance(n.slice, ast.Constant) and isinstance(n.slice.value, str):
        return n.slice.value
    return None


def is_attribs(n):
    return isinstance(n, ast.Name) and n.id == 'attribs'


def attr_or_attribs(n):
    return is_attribs(n) or is_self_attr(n)


def init_keys(cls):
    """ordered keys of the attribute dictionary literal in __init__, with the stored expression"""
    for n in ast.walk(method(cls, '__init__')):
        if isinstance(n, ast.Assign) and len(n.targets) == 1 and is_self_attr(n.targets[0]) and isinstance(n.value, ast.Dict):
            return [(k.value, v) for k, v in zip(n.value.keys, n.value.values)]
    raise Untranslatable('no attribute dictionary in __init__')


def dels_of(body):
    out = []
    for st in body:
        if isinstance(st, ast.Delete) and len(st.targets) == 1 and sub_key(st.targets[0], is_attribs):
            out.append(sub_key(st.targets[0], is_attribs))
        else:
            raise Untranslatable('statement in a conditional that is not `del attribs[..]`: ' + ast.unparse(st))
    return out


def cmp_const(test, op_type):
    """(key, constant) of  attribs[k] <op> const  /  self.__attr[k] <op> const"""
    if isinstance(test, ast.Compare) and len(test.ops) == 1 and isinstance(test.ops[0], op_type) and isinstance(test.comparators[0], ast.Constant):
        k = sub_key(test.left, attr_or_attribs)
        if k is not None:
            return k, test.comparators[0].value
    return None


def encode_side(cls):
    keys = [k for k, _ in init_keys(cls)]
    w = {k: 'raw' for k in keys}
    rules, type_drops, falsy = [], [], False
    g = method(cls, 'generate_xml')
    body = [s for s in g.body if not (isinstance(s, ast.Expr) and isinstance(s.value, ast.Constant))]

    def element_call(n):
        return isinstance(n, ast.Call) and isinstance(n.func, ast.Attribute) and n.func.attr == 'Element'
    for st in body:
        src = ast.unparse(st)
        if isinstance(st, ast.Assign) and len(st.targets) == 1 and is_attribs(st.targets[0]):
            v = st.value
            if not (isinstance(v, ast.Call) and isinstance(v.func, ast.Name) and v.func.id == 'dict' and len(v.args) == 1 and is_self_attr(v.args[0])):
                raise Untranslatable('attribs is not a copy of the attribute dictionary: ' + src)
            continue
        k = sub_key(st.targets[0], is_attribs) if isinstance(st, ast.Assign) and len(st.targets) == 1 else None
        if k is not None:
            v = st.value
            if isinstance(v, ast.IfExp) and isinstance(v.body, ast.Constant) and v.body.value == 'true' and isinstance(v.orelse, ast.Constant) and v.orelse.value == 'false' \
                    and sub_key(v.test, attr_or_attribs) == k:
                w[k] = 'bool'
            elif isinstance(v, ast.Call) and isinstance(v.func, ast.Name) and v.func.id == 'str' and sub_key(v.args[0], attr_or_attribs) == k:
                w[k] = 'int'
            elif isinstance(v, ast.BinOp) and isinstance(v.op, ast.Mod) and isinstance(v.left, ast.Constant) and v.left.value == '%d' and \
                    (sub_key(v.right, attr_or_attribs) == k or ast.unparse(v.right) == 'self.get_%s()' % k):
                w[k] = 'int'
            elif sub_key(v, attr_or_attribs) == k:
                pass
            else:
                raise Untranslatable('unrecognised value written for %s: %s' % (k, src))
            continue
        if isinstance(st, ast.If) and any(is_attribs(n) for n in ast.walk(st)):
            branches, cur = [], st
            while True:
                branches.append((cur.test, cur.body))
                if len(cur.orelse) == 1 and isinstance(cur.orelse[0], ast.If):
                    cur = cur.orelse[0]
                else:
                    tail = cur.orelse
                    break
            for test, b in branches:
                c = cmp_const(test, ast.Eq)
                cn = cmp_const(test, ast.Is)
                if c and c[1] == 'false' and w.get(c[0]) == 'bool' and dels_of(b) == [c[0]] and not tail:
                    w[c[0]] = 'bool_default_false'
                elif cn and cn[1] is None and dels_of(b) == [cn[0]]:
                    kk = cn[0]
                    if tail:
                        if len(tail) == 1 and isinstance(tail[0], ast.Assign) and sub_key(tail[0].targets[0], is_attribs) == kk and ast.unparse(tail[0].value) == "str(attribs['%s'])" % kk:
                            w[kk] = 'optint'
                        else:
                            raise Untranslatable('unrecognised else branch: ' + src)
                    else:
                        w[kk] = 'opt' if w[kk] == 'raw' else w[kk] + '_opt'
                elif c and isinstance(c[1], str) and c[1] != '' and dels_of(b) == [c[0]] and not tail:
                    w[c[0]] = ('default', c[1])
                elif c and c[1] == '' and dels_of(b) == [c[0]] and not tail and is_attribs(test.left.value):
                    w[c[0]] = ('default', '')
                elif c and c[1] == '' and not tail or (isinstance(test, ast.BoolOp) and isinstance(test.op, ast.And) and all(cmp_const(t, ast.Eq) and cmp_const(t, ast.Eq)[1] == '' for t in test.values)):
                    trig = [c[0]] if c else [cmp_const(t, ast.Eq)[0] for t in test.values]
                    rules.append((trig, dels_of(b)))
                elif isinstance(test, ast.BoolOp) and isinstance(test.op, ast.Or) and all(cmp_const(t, ast.Is) and cmp_const(t, ast.Is)[1] is None for t in test.values) and not tail:
                    ds = dels_of(b)
                    for t in test.values:
                        rules.append(([cmp_const(t, ast.Is)[0]], ds))
                elif isinstance(test, ast.Compare) and ast.unparse(test.left) == 'self._type' and isinstance(test.ops[0], (ast.In, ast.NotIn)) and not tail:
                    types = [e.value for e in test.comparators[0].elts]
                    type_drops.append((isinstance(test.ops[0], ast.NotIn), types, dels_of(b)))
                else:
                    raise Untranslatable('unrecognised condition on the attribute dictionary: ' + ast.unparse(test))
            continue
        # anything else: must not modify attribs; an Element built from a filtered dictionary marks every attribute as dropped when falsy
        touches = [n for n in ast.walk(st) if is_attribs(n)]
        if not touches:
            continue
        calls = [n for n in ast.walk(st) if element_call(n)]
        if len(calls) == 1 and len(calls[0].args) == 2:
            a = calls[0].args[1]
            if is_attribs(a):
                continue
            if isinstance(a, ast.DictComp) and ast.unparse(a) == '{k: v for k, v in attribs.items() if v}':
                falsy = True
                continue
        raise Untranslatable('statement uses the attribute dictionary in an unrecognised way: ' + src)
    # a class may build the element straight from self._attr
    if not any(is_attribs(n) for n in ast.walk(g)):
        if not any(element_call(n) and len(n.args) == 2 and is_self_attr(n.args[1]) for n in ast.walk(g)):
            raise Untranslatable('generate_xml does not build an element from the attribute dictionary')
    return keys, w, rules, type_drops, falsy


def xml_source(n):
    """classification of an expression reading the XML element"""
    def elem_get(c):
        # X.get('k'[, d]) / X.attrib.get('k'[, d])
        if isinstance(c, ast.Call) and isinstance(c.func, ast.Attribute) and c.func.attr == 'get' and c.args and isinstance(c.args[0], ast.Constant):
            return c.args[0].value, (c.args[1].value if len(c.args) > 1 and isinstance(c.args[1], ast.Constant) else None), len(c.args) > 1
        return None

    def elem_req(s):
        if isinstance(s, ast.Subscript) and isinstance(s.value, ast.Attribute) and s.value.attr == 'attrib' and isinstance(s.slice, ast.Constant):
            return s.slice.value
        return None
    if elem_req(n):
        return ('req', elem_req(n))
    g = elem_get(n)
    if g:
        return ('default', g[0], g[1]) if g[2] else ('opt', g[0])
    if isinstance(n, ast.Compare) and len(n.ops) == 1 and isinstance(n.ops[0], ast.Eq) and isinstance(n.comparators[0], ast.Constant):
        lit = n.comparators[0].value
        if elem_req(n.left):
            return ('eq', elem_req(n.left), lit)
        g = elem_get(n.left)
        if g and lit == 'true' and (not g[2] or g[1] == 'false'):
            return ('bool', g[0])
    if isinstance(n, ast.Call) and isinstance(n.func, ast.Name) and n.func.id == 'int' and len(n.args) == 1 and elem_req(n.args[0]):
        return ('reqint', elem_req(n.args[0]))
    if isinstance(n, ast.IfExp) and isinstance(n.orelse, ast.Constant) and n.orelse.value is None and isinstance(n.body, ast.Call) and \
            isinstance(n.body.func, ast.Name) and n.body.func.id == 'int' and elem_get(n.body.args[0]) and \
            ast.unparse(n.test) == ast.unparse(n.body.args[0]) + ' is not None':
        return ('optint', elem_get(n.body.args[0])[0])
    return None


def stored(expr, params):
    """how __init__ stores a parameter: (param, conversion)"""
    if isinstance(expr, ast.Name) and expr.id in params:
        return expr.id, 'direct'
    if isinstance(expr, ast.Call) and isinstance(expr.func, ast.Name) and expr.func.id in ('bool', 'int', 'str') and len(expr.args) == 1 and isinstance(expr.args[0], ast.Name):
        return expr.args[0].id, expr.func.id
    if isinstance(expr, ast.BoolOp) and isinstance(expr.op, ast.Or) and isinstance(expr.values[0], ast.Name):
        return expr.values[0].id, 'direct'          # `x or fallback`: the fallback applies to empty values only, which the schema excludes
    if isinstance(expr, ast.IfExp) and isinstance(expr.body, ast.Constant) and isinstance(expr.orelse, ast.Constant) and isinstance(expr.test, ast.Name):
        return expr.test.id, ('choice', expr.body.value, expr.orelse.value)
    if isinstance(expr, ast.IfExp) and ast.unparse(expr.orelse) == 'None' and isinstance(expr.body, ast.Call) and ast.unparse(expr.body.func) == 'int' and \
            isinstance(expr.body.args[0], ast.Name) and ast.unparse(expr.test) == expr.body.args[0].id + ' is not None':
        return expr.body.args[0].id, 'optint'
    if isinstance(expr, ast.IfExp) and ast.unparse(expr.orelse) == 'None' and isinstance(expr.test, ast.Name) and ast.unparse(expr.body) == expr.test.id + '.get_name()':
        return expr.test.id, 'name-of'
    if isinstance(expr, ast.Call) and isinstance(expr.func, ast.Attribute) and expr.func.attr == 'get_name' and isinstance(expr.func.value, ast.Name):
        return expr.func.value.id, 'name-of'
    if isinstance(expr, ast.Constant):
        return None, ('const', expr.value)
    return None, None


def decode_side(cls):
    """key -> (xml source classification, conversion in __init__)"""
    init = method(cls, '__init__')
    params = [a.arg for a in init.args.args][1:]
    # local names that __init__ derives from a parameter (display_name_singular = display_name_singular or ...)
    keymap = {}
    for k, v in init_keys(cls):
        keymap[k] = stored(v, params)
    cf = method(cls, 'create_from_xml')
    local = {}
    for n in ast.walk(cf):
        if isinstance(n, ast.Assign) and len(n.targets) == 1 and isinstance(n.targets[0], ast.Name):
            s = xml_source(n.value)
            if s:
                local[n.targets[0].id] = s
    ctor = [n for n in ast.walk(cf) if isinstance(n, ast.Call) and isinstance(n.func, ast.Name) and n.func.id == 'cls']
    if len(ctor) != 1:
        raise Untranslatable('create_from_xml does not call cls(...) exactly once')
    argsrc = {}
    for p, a in zip(params, ctor[0].args):
        s = xml_source(a)
        if s is None and isinstance(a, ast.Name) and a.id in local:
            s = local[a.id]
        if s is None and isinstance(a, ast.Subscript) and isinstance(a.slice, ast.Name) and a.slice.id in local:
            s = local[a.slice.id]                     # event_type[source]: the property named by the attribute
        if s is None and isinstance(a, ast.Name) and a.id in ('source_concept', 'target_concept', 'object_type'):
            s = local.get(a.id + '_name')
        argsrc[p] = s
    out = {}
    for k, (p, conv) in keymap.items():
        if p is None:
            out[k] = (None, conv)
        else:
            out[k] = (argsrc.get(p), conv)
    # chained setters:  .set_version(X.attrib['version'])  /  .set_x(X.attrib.get('k'))  and  obj.set_attribute(a, b, c)
    for n in ast.walk(cf):
        if isinstance(n, ast.Call) and isinstance(n.func, ast.Attribute) and n.func.attr.startswith('set_') and n.args:
            try:
                m = method(cls, n.func.attr)
            except Untranslatable:
                if n.func.attr == 'set_version':
                    s = xml_source(n.args[0])
                    out['version'] = (s, 'int')
                continue
            mparams = [a.arg for a in m.args.args][1:]
            sets = [(c.args[0].value, c.args[1]) for c in ast.walk(m) if isinstance(c, ast.Call) and isinstance(c.func, ast.Attribute) and c.func.attr == '_set_attr'
                    and isinstance(c.args[0], ast.Constant)]
            for key, val in sets:
                if isinstance(val, ast.Name) and val.id in mparams:
                    a = n.args[mparams.index(val.id)] if mparams.index(val.id) < len(n.args) else None
                    s = xml_source(a) if a is not None else None
                    if s is None and isinstance(a, ast.Name) and a.id in local:
                        s = local[a.id]
                    out[key] = (s, 'direct')
                elif ast.unparse(val) == 'int(%s)' % mparams[0]:
                    out[key] = (xml_source(n.args[0]), 'int')
    return out


def codec_of(key, wk, dk, has_rule):
    src, conv = dk
    K = lambda name, *a: C(name, *a) if a else C(name)
    if wk == 'raw' and not has_rule:
        if src and src[0] == 'req' and conv in ('direct', 'str', 'name-of'):
            return K('KStr')
        if src and src[0] == 'eq' and isinstance(conv, tuple) and conv[0] == 'choice' and conv[1] == src[2]:
            return K('KChoice2', conv[1], conv[2])
    if wk == 'raw' and src and src[0] == 'opt' and conv in ('direct', 'name-of'):
        # written as it is (a rule, the element type or the schema keeps None away), absent reads as None
        return K('KRawOpt', C('VNone'))
    if wk == 'raw' and has_rule:
        if src and src[0] == 'default' and src[2] == '' and conv == 'direct':
            return K('KRawOpt', C('VStr', ''))
    if wk == 'int' and src and ((src[0] == 'req' and conv == 'int') or (src[0] == 'reqint' and conv in ('direct', 'int'))):
        return K('KInt')
    if wk == 'int' and src and src[0] == 'opt' and conv == 'optint':
        return K('KInt')          # relation confidence: required by the schema wherever the element type keeps it
    if wk == 'opt' and src and src[0] == 'opt' and conv in ('direct', 'name-of'):
        return K('KOptStr')
    if wk == 'optint' and src and src[0] == 'optint' and conv == 'direct':
        return K('KOptInt')
    if isinstance(wk, tuple) and wk[0] == 'default' and src and src[0] == 'default' and src[2] == wk[1] and conv == 'direct':
        return K('KStrDefault', wk[1])
    if wk == 'bool' and src and src[0] == 'bool' and conv == 'bool':
        return K('KBoolWritten')
    if wk == 'bool_default_false' and src and src[0] == 'bool' and conv == 'bool':
        return K('KBoolDefaultFalse')
    if wk == 'falsy' and src and src[0] == 'req' and conv == 'direct':
        return K('KFalsyReq')
    if wk == 'falsy' and src and src[0] == 'opt' and conv == 'direct':
        return K('KFalsyOpt')
    raise Untranslatable('attribute %s: written as %r, read as %r: no codec describes both' % (key, wk, dk))


def table(name, cls):
    keys, w, rules, type_drops, falsy = encode_side(cls)
    dec = decode_side(cls)
    if falsy:
        w = {k: ('falsy' if v == 'raw' else v) for k, v in w.items()}
    ruled = {d for _, ds in rules for d in ds}

    def build(ks):
        return C('Build_ekind', [(k, codec_of(k, w[k], dec.get(k, (None, None)), k in ruled)) for k in ks],
                 [C('Build_rule_', list(t), list(d)) for t, d in rules if all(x in ks for x in d)])
    if not type_drops:
        return {name: build(keys)}
    # relation: one table per group of element types
    out = {}
    all_types = sorted({t for _, ts, _ in type_drops for t in ts})
    groups = {}
    for t in all_types + ['(other)']:
        dropped = set()
        for neg, ts, ds in type_drops:
            if (t in ts) != neg:
                dropped.update(ds)
        groups.setdefault(tuple(k for k in keys if k not in dropped), []).append(t)
    for ks, ts in groups.items():
        out['%s_%s' % (name, '_'.join(x.strip('()') for x in ts))] = build(list(ks))
    return out


def generate():
    lines = ['(* GENERATED on every run by harness/translate/c08.py from the element classes of /repo/edxml/ontology — do not edit. *)',
             'From Coq Require Import String.', 'From EdxmlVerif Require Import Base.Prelude Onto.Tree Onto.Xml.']
    notes, names = [], []
    for name, path, cname in CLASSES:
        try:
            tree = ast.parse(open(os.path.join(REPO, path)).read())
            cls = next(n for n in ast.walk(tree) if isinstance(n, ast.ClassDef) and n.name == cname)
            tabs = table(name, cls)
            ok = True
        except Exception as e:
            notes.append('%s: %s' % (cname, e))
            tabs, ok = {name: C('Build_ekind', [], [])}, False
        for tn, t in tabs.items():
            lines.append('Definition gen_xk_%s : ekind := %s.' % (tn, coq(t)))
            names.append(tn)
        lines.append('Definition gen_ok_%s : bool := %s.' % (name, coq(ok)))
    lines.append('Definition gen_all_ok : bool := %s.' % ' && '.join('gen_ok_%s' % n for n, _, _ in CLASSES))
    changed = write_if_changed(os.path.join(THEORIES, 'Generated', 'C08_gen.v'), '\n'.join(lines) + '\n')
    return names, notes, changed


if __name__ == '__main__':
    names, notes, _ = generate()
    print(names)
    for n in notes:
        print('NOTE', n)
