"""T1 for C01: read the byte-layout literals of EDXMLEvent.compute_sticky_hash and the
hashed-strategy literal of EventProperty.is_hashed from /repo's current source (Python ast)
and emit them as Coq definitions.  Tolerant by design: when the shape of the code is not
recognised no constants are emitted (`gen_extracted := false`, pinned values) and the
check relies on the behavioural correspondence alone."""
import ast, os
from common.core import REPO, THEORIES, write_if_changed, coq

PINNED = {'separator': b'\xff\xff\xff\xff', 'objfmt': '%s:%s', 'layout': b'%s\n%s\n%s', 'hashed_strategy': 'match'}


def _find_func(tree, cls, name):
    for n in ast.walk(tree):
        if isinstance(n, ast.ClassDef) and n.name == cls:
            for f in n.body:
                if isinstance(f, ast.FunctionDef) and f.name == name:
                    return f
    return None


def extract():
    notes = []
    out = dict(PINNED)
    ok = True
    try:
        tree = ast.parse(open(os.path.join(REPO, 'edxml/event.py')).read())
        f = _find_func(tree, 'EDXMLEvent', 'compute_sticky_hash')
        seps = [n.value.value for n in ast.walk(f) if isinstance(n, ast.Assign) and isinstance(n.value, ast.Constant)
                and isinstance(n.value.value, bytes)]
        mods = [n for n in ast.walk(f) if isinstance(n, ast.BinOp) and isinstance(n.op, ast.Mod) and isinstance(n.left, ast.Constant)]
        objf = [m.left.value for m in mods if isinstance(m.left.value, str)]
        lay = [m.left.value for m in mods if isinstance(m.left.value, bytes)]
        calls = {n.func.id for n in ast.walk(f) if isinstance(n, ast.Call) and isinstance(n.func, ast.Name)}
        if len(seps) == 1 and len(objf) == 1 and len(lay) == 1:
            out.update(separator=seps[0], objfmt=objf[0], layout=lay[0])
        else:
            ok = False
            notes.append('compute_sticky_hash: literals not uniquely identified (%d separators, %d str formats, %d bytes formats)'
                         % (len(seps), len(objf), len(lay)))
        out['uses_set'] = 'set' in calls
        out['uses_sorted'] = 'sorted' in calls
        tree2 = ast.parse(open(os.path.join(REPO, 'edxml/ontology/event_property.py')).read())
        g = _find_func(tree2, 'EventProperty', 'is_hashed')
        lits = [n.comparators[0].value for n in ast.walk(g) if isinstance(n, ast.Compare) and len(n.ops) == 1
                and isinstance(n.ops[0], ast.Eq) and isinstance(n.comparators[0], ast.Constant)]
        if len(lits) == 1 and isinstance(lits[0], str):
            out['hashed_strategy'] = lits[0]
        else:
            ok = False
            notes.append('is_hashed: comparison literal not identified')
    except Exception as e:      # unreadable / unparsable source
        ok = False
        notes.append('extraction failed: %r' % (e,))
    out['extracted'] = ok
    return out, notes


def generate():
    c, notes = extract()
    text = '\n'.join([
        '(* GENERATED on every run by harness/translate/c01.py from /repo/edxml/event.py and',
        '   /repo/edxml/ontology/event_property.py — do not edit. *)',
        'From Coq Require Import String.', 'From EdxmlVerif Require Import Base.Prelude.',
        'Definition gen_extracted : bool := %s.' % coq(bool(c['extracted'])),
        'Definition gen_separator : list N := %s.' % coq(c['separator']),
        'Definition gen_objfmt : list N := %s.' % coq(c['objfmt']),
        'Definition gen_layout : list N := %s.' % coq(c['layout']),
        'Definition gen_uses_set : bool := %s.' % coq(bool(c.get('uses_set', True))),
        'Definition gen_uses_sorted : bool := %s.' % coq(bool(c.get('uses_sorted', True))),
        'Definition gen_hashed_strategy : list N := %s.' % coq(c['hashed_strategy']), ''])
    changed = write_if_changed(os.path.join(THEORIES, 'Generated', 'C01_gen.v'), text)
    return c, notes, changed


if __name__ == '__main__':
    print(generate())
