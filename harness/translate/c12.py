"""T1 for C12: the mutator table.  For every public method of every ontology class (current source, Python ast):
 - direct_write: the method assigns to / deletes from / rebinds a private field of self (self.__x..., self._attr..., self.__x = ...)
 - notifies: the method calls self._child_modified_callback() (directly)
 - set_attr: the method calls self._set_attr(...) (which notifies when the value changes)
 - callees: other methods of self it calls
The table is emitted as Coq data; Props/C12.v checks `every method that writes directly also notifies` by reflection."""
import ast, os
from common.core import REPO, THEORIES, write_if_changed, coq

CLASSES = [('edxml/ontology/ontology.py', 'Ontology'), ('edxml/ontology/object_type.py', 'ObjectType'),
           ('edxml/ontology/concept.py', 'Concept'), ('edxml/ontology/event_source.py', 'EventSource'),
           ('edxml/ontology/event_type.py', 'EventType'), ('edxml/ontology/event_property.py', 'EventProperty'),
           ('edxml/ontology/event_property_concept.py', 'PropertyConcept'), ('edxml/ontology/event_property_relation.py', 'PropertyRelation'),
           ('edxml/ontology/event_type_parent.py', 'EventTypeParent'), ('edxml/ontology/event_type_attachment.py', 'EventTypeAttachment')]
# fields that are caches / back references, not part of what is serialised
NON_CONTENT = {'__cached_is_timeless', '__cached_hash_properties', '__versions', '__event_type', '_event_type', '_child_event_type',
               '__ontology', '_ontology', '__object_type', '__data_type', '__version'}
# Ontology.__version is the counter itself: writing it directly (other than through the callback) is recorded separately


def _self_field(node):
    """name of the private field of self at the root of an assignment target, or None"""
    n = node
    while isinstance(n, (ast.Subscript, ast.Attribute)):
        if isinstance(n, ast.Attribute) and isinstance(n.value, ast.Name) and n.value.id == 'self':
            return n.attr
        n = n.value
    return None


def analyse(cls_node):
    rows = []
    for f in cls_node.body:
        if not isinstance(f, ast.FunctionDef):
            continue
        name = f.name
        if name.startswith('_') and name not in ('__setitem__', '__delitem__', '_set_attr', '_child_modified_callback'):
            continue
        if any(isinstance(d, ast.Name) and d.id in ('classmethod', 'staticmethod', 'property') for d in f.decorator_list):
            continue
        writes, resets_counter, notifies, set_attr, callees = set(), False, False, False, set()
        for n in ast.walk(f):
            targets = []
            if isinstance(n, ast.Assign):
                targets = n.targets
            elif isinstance(n, (ast.AugAssign, ast.AnnAssign)):
                targets = [n.target]
            elif isinstance(n, ast.Delete):
                targets = n.targets
            for t in targets:
                for tt in (t.elts if isinstance(t, ast.Tuple) else [t]):
                    fld = _self_field(tt)
                    if fld is None:
                        continue
                    if fld == '__version' and cls_node.name == 'Ontology':
                        if name != '_child_modified_callback':
                            resets_counter = True
                    elif fld not in NON_CONTENT:
                        writes.add(fld)
            if isinstance(n, ast.Call) and isinstance(n.func, ast.Attribute):
                # self.x(...) or self.__field.method(...) mutating a container of self
                if isinstance(n.func.value, ast.Name) and n.func.value.id == 'self':
                    if n.func.attr == '_child_modified_callback':
                        notifies = True
                    elif n.func.attr == '_set_attr':
                        set_attr = True
                    else:
                        callees.add(n.func.attr)
                elif n.func.attr in ('append', 'extend', 'update', 'pop', 'clear', 'remove', 'add', 'discard', 'setdefault', 'popitem', 'insert'):
                    fld = _self_field(n.func.value)
                    if fld is not None and fld not in NON_CONTENT and isinstance(n.func.value, ast.Attribute):
                        writes.add(fld)
        rows.append((cls_node.name, name, bool(writes), notifies, set_attr, resets_counter, sorted(callees)))
    return rows


def extract():
    rows, notes = [], []
    for path, cls in CLASSES:
        try:
            tree = ast.parse(open(os.path.join(REPO, path)).read())
            node = next(n for n in ast.walk(tree) if isinstance(n, ast.ClassDef) and n.name == cls)
            rows += analyse(node)
        except Exception as e:
            notes.append('%s: %r' % (cls, e))
    return rows, notes


def generate():
    rows, notes = extract()
    lines = ['(* GENERATED on every run by harness/translate/c12.py from /repo/edxml/ontology/*.py — do not edit. *)',
             'From Coq Require Import String.', 'From EdxmlVerif Require Import Base.Prelude.',
             '(* (class, method, writes content directly, calls _child_modified_callback, calls _set_attr, assigns the counter) *)',
             'Definition gen_mutators : list (str * str * bool * bool * bool * bool) := [']
    lines.append(';\n'.join('  ' + coq((c, m, w, n, s, r)) for c, m, w, n, s, r, _ in rows))
    lines.append('].')
    lines.append('Definition gen_mutators_ok : bool := %s.' % coq(not notes))
    changed = write_if_changed(os.path.join(THEORIES, 'Generated', 'C12_gen.v'), '\n'.join(lines) + '\n')
    return rows, notes, changed


if __name__ == '__main__':
    rows, notes, _ = generate()
    for r in rows:
        if r[2] and not r[3]:
            print('WRITES WITHOUT NOTIFY', r)
        if r[5]:
            print('ASSIGNS COUNTER', r)
    print(len(rows), notes)
