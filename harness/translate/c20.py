"""T1 for C20: the confidence formulas of the miner, from the CURRENT source (Python ast), as normalised expression strings.
Props/C20_src.v (generated) is compared with what the model implements by reflexivity."""
import ast, os
from common.core import REPO, THEORIES, write_if_changed, coq


def _fn(tree, cls, name):
    c = next(n for n in ast.walk(tree) if isinstance(n, ast.ClassDef) and n.name == cls)
    return next(f for f in c.body if isinstance(f, ast.FunctionDef) and f.name == name)


def facts():
    out, notes = {}, []

    def grab(key, path, fn):
        try:
            out[key] = fn(ast.parse(open(os.path.join(REPO, path)).read()))
        except Exception as e:
            out[key] = '?'
            notes.append('%s: %r' % (key, e))
    grab('dijkstra', 'edxml/miner/inference.py', lambda t: ast.unparse(next(n.value for n in ast.walk(_fn(t, 'Inference', 'compute_dijkstra_confidence')) if isinstance(n, ast.Return))))
    grab('taint', 'edxml/miner/graph/graph.py', lambda t: ' | '.join(ast.unparse(n.value) for n in ast.walk(_fn(t, 'ConceptInstanceGraph', '_update_seed_taints'))
                                                                    if isinstance(n, ast.Assign) and ast.unparse(n.targets[0]) in ('new_taint', 'node.taint')))
    grab('seed_order', 'edxml/miner/graph/graph.py', lambda t: next(ast.unparse(k.value) for n in ast.walk(_fn(t, 'ConceptInstanceGraph', 'find_optimal_seed'))
                                                                    if isinstance(n, ast.Call) and ast.unparse(n.func) == 'sorted' for k in n.keywords if k.arg == 'key'))
    grab('net_confidence', 'edxml/miner/node.py', lambda t: ast.unparse(next(n.value for n in ast.walk(_fn(t, 'NodeCollection', 'compute_net_confidence')) if isinstance(n, ast.Return))))
    grab('extract_cutoff', 'edxml/miner/miner.py', lambda t: ' | '.join(ast.unparse(n) for n in ast.walk(_fn(t, 'Miner', 'mine')) if isinstance(n, ast.Call)))
    return out, notes


def generate():
    f, notes = facts()
    lines = ['(* GENERATED on every run by harness/translate/c20.py — do not edit. *)', 'From Coq Require Import String.', 'From EdxmlVerif Require Import Base.Prelude.']
    for k in ('dijkstra', 'taint', 'seed_order', 'net_confidence', 'extract_cutoff'):
        lines.append('Definition src_%s : str := %s.' % (k, coq(f.get(k, '?'))))
    changed = write_if_changed(os.path.join(THEORIES, 'Generated', 'C20_gen.v'), '\n'.join(lines) + '\n')
    return f, notes, changed


if __name__ == '__main__':
    f, n, _ = generate()
    for k, v in f.items():
        print(k, '=', v)
    print(n)
