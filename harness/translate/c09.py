"""T1 for C09 (also used by C10-C12): from the current source of every ontology element class read
 (a) the attribute list iterated by `for attr in [...]` in __cmp__ (cosmetic attributes) and, for Concept, the getters compared,
 (b) the keys of the attribute dictionary created in __init__ (what generate_xml serialises),
and emit them as Coq lists. Tolerant: when a shape is not recognised the pinned list is emitted and `gen_ok_<kind> := false`."""
import ast, os
from common.core import REPO, THEORIES, write_if_changed, coq

CLASSES = {
    'objtype': ('edxml/ontology/object_type.py', 'ObjectType'),
    'concept': ('edxml/ontology/concept.py', 'Concept'),
    'source': ('edxml/ontology/event_source.py', 'EventSource'),
    'etype': ('edxml/ontology/event_type.py', 'EventType'),
    'prop': ('edxml/ontology/event_property.py', 'EventProperty'),
    'assoc': ('edxml/ontology/event_property_concept.py', 'PropertyConcept'),
    'rel': ('edxml/ontology/event_property_relation.py', 'PropertyRelation'),
    'parent': ('edxml/ontology/event_type_parent.py', 'EventTypeParent'),
    'att': ('edxml/ontology/event_type_attachment.py', 'EventTypeAttachment'),
}
PINNED_PLAIN = {
    'objtype': ['display-name-singular', 'display-name-plural', 'description', 'compress', 'fuzzy-matching', 'xref', 'unit-name',
                'unit-symbol', 'prefix-radix', 'regex-soft'],
    'concept': ['display-name-singular', 'display-name-plural', 'description'],
    'source': ['description', 'date-acquired'],
    'etype': ['display-name-singular', 'display-name-plural', 'description', 'summary', 'story'],
    'prop': ['description', 'similar', 'confidence'],
    'assoc': ['confidence', 'cnp', 'attr-display-name-singular', 'attr-display-name-plural'],
    'rel': ['description', 'predicate', 'confidence'],
    'parent': ['parent-description', 'siblings-description'],
    'att': ['description', 'display-name-singular', 'display-name-plural'],
}
PINNED_ATTRS = {
    'objtype': ['name', 'display-name-singular', 'display-name-plural', 'description', 'data-type', 'unit-name', 'unit-symbol',
                'prefix-radix', 'xref', 'compress', 'fuzzy-matching', 'regex-hard', 'regex-soft', 'version'],
    'concept': ['name', 'display-name-singular', 'display-name-plural', 'description', 'version'],
    'source': ['uri', 'description', 'date-acquired', 'version'],
    'etype': ['name', 'display-name-singular', 'display-name-plural', 'description', 'event-version', 'sequence', 'timespan-start',
              'timespan-end', 'summary', 'story', 'version'],
    'prop': ['name', 'object-type', 'description', 'optional', 'multivalued', 'merge', 'similar', 'confidence'],
    'assoc': ['name', 'confidence', 'cnp', 'attr-extension', 'attr-display-name-singular', 'attr-display-name-plural'],
    'rel': ['source', 'target', 'source-concept', 'target-concept', 'description', 'predicate', 'confidence'],
    'parent': ['event-type', 'property-map', 'parent-description', 'siblings-description'],
    'att': ['name', 'media-type', 'display-name-singular', 'display-name-plural', 'description', 'encoding'],
}


def _method(tree, cls, name):
    for n in ast.walk(tree):
        if isinstance(n, ast.ClassDef) and n.name == cls:
            for f in n.body:
                if isinstance(f, ast.FunctionDef) and f.name == name:
                    return f
    return None


def extract(kind):
    path, cls = CLASSES[kind]
    notes = []
    plain, attrs = None, None
    try:
        tree = ast.parse(open(os.path.join(REPO, path)).read())
        cmpf = _method(tree, cls, '__cmp__')
        loops = [n for n in ast.walk(cmpf) if isinstance(n, ast.For) and isinstance(n.iter, (ast.List, ast.Tuple))
                 and all(isinstance(e, ast.Constant) and isinstance(e.value, str) for e in n.iter.elts)]
        if len(loops) == 1:
            plain = [e.value for e in loops[0].iter.elts]
        elif not loops and kind == 'concept':
            got = []
            for n in ast.walk(cmpf):
                if isinstance(n, ast.AugAssign) and isinstance(n.op, ast.BitAnd) and isinstance(n.value, ast.Compare):
                    l = n.value.left
                    if isinstance(l, ast.Call) and isinstance(l.func, ast.Attribute) and l.func.attr.startswith('get_'):
                        got.append(l.func.attr[4:].replace('_', '-'))
            plain = got or None
        if plain is None:
            notes.append('%s.__cmp__: cosmetic attribute list not recognised' % cls)
        init = _method(tree, cls, '__init__')
        dicts = [n.value for n in ast.walk(init) if isinstance(n, ast.Assign) and isinstance(n.value, ast.Dict)
                 and any(isinstance(t, ast.Attribute) and t.attr.endswith('attr') for t in n.targets)]
        if len(dicts) == 1 and all(isinstance(k, ast.Constant) for k in dicts[0].keys):
            attrs = [k.value for k in dicts[0].keys]
        else:
            notes.append('%s.__init__: attribute dictionary not recognised' % cls)
    except Exception as e:
        notes.append('%s: extraction failed %r' % (cls, e))
    return plain, attrs, notes


def generate():
    lines = ['(* GENERATED on every run by harness/translate/c09.py from /repo/edxml/ontology/*.py — do not edit. *)',
             'From Coq Require Import String.', 'From EdxmlVerif Require Import Base.Prelude.']
    notes_all, info = [], {}
    for kind in CLASSES:
        plain, attrs, notes = extract(kind)
        notes_all += notes
        ok = plain is not None and attrs is not None
        info[kind] = {'plain': plain, 'attrs': attrs}
        lines.append('Definition gen_ok_%s : bool := %s.' % (kind, coq(ok)))
        lines.append('Definition gen_plain_%s : list str := %s.' % (kind, coq(plain if plain is not None else PINNED_PLAIN[kind])))
        lines.append('Definition gen_attrs_%s : list str := %s.' % (kind, coq(attrs if attrs is not None else PINNED_ATTRS[kind])))
    changed = write_if_changed(os.path.join(THEORIES, 'Generated', 'C09_gen.v'), '\n'.join(lines) + '\n')
    return info, notes_all, changed


if __name__ == '__main__':
    print(generate())
