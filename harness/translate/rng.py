"""Translate the RelaxNG that the SDK generates (lxml elements) into terms of the Gallina gate model
(Valid/Gate.v), including a parser for the XSD regular-expression subset used in `pattern` facets.
Fail-closed: anything unrecognised raises Untranslatable."""
from common.core import C, coq, Raw, Z, Nat

RNG = '{http://relaxng.org/ns/structure/1.0}'


class Untranslatable(Exception):
    pass


# ---------------------------------------------------------------------------
# XSD regex -> re term
class RegexParser:
    def __init__(self, s):
        self.s, self.i = s, 0

    def peek(self):
        return self.s[self.i] if self.i < len(self.s) else None

    def take(self):
        c = self.s[self.i]
        self.i += 1
        return c

    def parse(self):
        r = self.alt()
        if self.i != len(self.s):
            raise Untranslatable('regex: trailing %r in %r' % (self.s[self.i:], self.s))
        return r

    def alt(self):
        branches = [self.seq()]
        while self.peek() == '|':
            self.take()
            branches.append(self.seq())
        r = branches[-1]
        for b in reversed(branches[:-1]):
            r = C('Alt', b, r)
        return r

    def seq(self):
        items = []
        while self.peek() is not None and self.peek() not in '|)':
            items.append(self.quant())
        if not items:
            return C('Eps')
        r = items[-1]
        for it in reversed(items[:-1]):
            r = C('Cat', it, r)
        return r

    def quant(self):
        a = self.atom()
        while self.peek() is not None and self.peek() in '*+?{':
            c = self.take()
            if c == '*':
                a = C('Star', a)
            elif c == '+':
                a = C('rplus', a)
            elif c == '?':
                a = C('ropt', a)
            else:
                j = self.s.index('}', self.i)
                body = self.s[self.i:j]
                self.i = j + 1
                if ',' in body:
                    lo, hi = body.split(',')
                    lo = int(lo)
                    if hi == '':
                        a = C('Cat', C('rpow', a, Nat(lo)), C('Star', a))
                    else:
                        a = C('Cat', C('rpow', a, Nat(lo)), C('rupto', a, Nat(int(hi) - lo)))
                else:
                    a = C('rpow', a, Nat(int(body)))
        return a

    def escape(self):
        c = self.take()
        if c == 'd':
            return C('CProp', 'Nd')
        if c == 'D':
            return C('CNeg', C('CProp', 'Nd'))
        if c == 's':
            return C('CProp', 'space')
        if c == 'S':
            return C('CNeg', C('CProp', 'space'))
        if c == 'w':
            return C('CProp', 'word')
        if c in 'pP':
            if self.take() != '{':
                raise Untranslatable('regex: \\p without {')
            j = self.s.index('}', self.i)
            name = self.s[self.i:j]
            self.i = j + 1
            cs = C('CProp', name)
            return cs if c == 'p' else C('CNeg', cs)
        if c == 'n':
            return C('CRange', 10, 10)
        if c == 'r':
            return C('CRange', 13, 13)
        if c == 't':
            return C('CRange', 9, 9)
        if c in '\\|.-^?*+{}()[]':
            return C('CRange', ord(c), ord(c))
        raise Untranslatable('regex: escape \\%s' % c)

    def atom(self):
        c = self.take()
        if c == '(':
            r = self.alt()
            if self.take() != ')':
                raise Untranslatable('regex: missing )')
            return r
        if c == '[':
            return C('Chr', self.cls())
        if c == '.':
            return C('Chr', C('CDiff', C('CAny'), C('CUnion', C('CRange', 10, 10), C('CRange', 13, 13))))
        if c == '\\':
            return C('Chr', self.escape())
        if c in ')]}':
            raise Untranslatable('regex: unexpected %s' % c)
        return C('Chr', C('CRange', ord(c), ord(c)))

    def cls(self):
        neg = False
        if self.peek() == '^':
            self.take()
            neg = True
        items = []
        sub = None
        while True:
            c = self.peek()
            if c is None:
                raise Untranslatable('regex: unterminated class')
            if c == ']':
                self.take()
                break
            if c == '-' and self.s[self.i + 1:self.i + 2] == '[':
                self.take()
                self.take()
                sub = self.cls()
                if self.take() != ']':
                    raise Untranslatable('regex: bad class subtraction')
                break
            c = self.take()
            if c == '\\':
                lo = self.escape()
                if lo.name != 'CRange':
                    items.append(lo)
                    continue
                lo_cp = lo.args[0]
            else:
                lo_cp = ord(c)
            if self.peek() == '-' and self.s[self.i + 1:self.i + 2] not in (']', '['):
                self.take()
                h = self.take()
                if h == '\\':
                    hi = self.escape()
                    hi_cp = hi.args[0]
                else:
                    hi_cp = ord(h)
                items.append(C('CRange', lo_cp, hi_cp))
            else:
                items.append(C('CRange', lo_cp, lo_cp))
        if not items:
            raise Untranslatable('regex: empty class')
        r = items[-1]
        for it in reversed(items[:-1]):
            r = C('CUnion', it, r)
        if neg:
            r = C('CNeg', r)
        if sub is not None:
            r = C('CDiff', r, sub)
        return r


def regex_term(s):
    return RegexParser(s).parse()


# ---------------------------------------------------------------------------
XTYPES = {'byte': 'XByte', 'unsignedByte': 'XUByte', 'short': 'XShort', 'unsignedShort': 'XUShort', 'int': 'XInt',
          'unsignedInt': 'XUInt', 'long': 'XLong', 'unsignedLong': 'XULong', 'string': 'XString', 'token': 'XToken',
          'normalizedString': 'XNormalized'}


def tag(el):
    return el.tag.replace(RNG, '') if isinstance(el.tag, str) else None


def value_schema(el):
    """<data>, <choice> of <value>, ... -> vschema term (VUnmodelled for types outside the Gallina model)"""
    t = tag(el)
    if t == 'choice' and all(tag(c) == 'value' for c in el):
        return C('VChoice', [c.text or '' for c in el])
    if t == 'data':
        typ = el.get('type')
        if typ not in XTYPES:
            return C('VUnmodelled')
        mn = mx = None
        minlen = maxlen = None
        pats = []
        for p in el:
            if tag(p) != 'param':
                raise Untranslatable('data child %s' % p.tag)
            n, v = p.get('name'), p.text or ''
            if n == 'minInclusive':
                mn = int(v)
            elif n == 'maxInclusive':
                mx = int(v)
            elif n == 'minLength':
                minlen = int(v)
            elif n == 'maxLength':
                maxlen = int(v)
            elif n == 'pattern':
                pats.append(regex_term(v))
            else:
                return C('VUnmodelled')
        some = lambda x, f: C('Some', f(x)) if x is not None else None
        return C('VData', C('Build_dataspec', C(XTYPES[typ]), some(mn, Z), some(mx, Z), some(minlen, Nat), some(maxlen, Nat), pats))
    raise Untranslatable('value schema %s' % el.tag)


def occurrence(el):
    """-> (name, min, max or None, value schema element)"""
    t = tag(el)
    if t == 'element':
        return el.get('name'), 1, 1, el
    inner = el[0]
    if tag(inner) != 'element' or len(el) != 1:
        raise Untranslatable('occurrence %s' % el.tag)
    if t == 'optional':
        return inner.get('name'), 0, 1, inner
    if t == 'oneOrMore':
        return inner.get('name'), 1, None, inner
    if t == 'zeroOrMore':
        return inner.get('name'), 0, None, inner
    raise Untranslatable('occurrence %s' % el.tag)


def event_schema(rng_root):
    """the grammar generated by EventType.generate_relax_ng -> eschema term"""
    start = rng_root.find(RNG + 'start')
    ev = start[0]
    if tag(ev) != 'element' or ev.get('name') != 'event':
        raise Untranslatable('start is not the event element')
    props, atts = [], []
    for ch in ev:
        if tag(ch) == 'element' and ch.get('name') == 'properties':
            body = ch[0]
            items = list(body) if tag(body) == 'interleave' else ([] if tag(body) == 'empty' else [body])
            for it in items:
                name, mn, mx, el = occurrence(it)
                if len(el) != 1:
                    raise Untranslatable('property element with %d children' % len(el))
                props.append(C('Build_occ', name, Nat(mn), (C('Some', Nat(mx)) if mx is not None else None), value_schema(el[0])))
        elif tag(ch) == 'optional' and tag(ch[0]) == 'element' and ch[0].get('name') == 'attachments':
            body = ch[0][0]
            items = list(body) if tag(body) == 'interleave' else ([] if tag(body) == 'empty' else [body])
            for it in items:
                name, mn, mx, el = occurrence(it)
                data = [c for c in el if tag(c) == 'data']
                is_b64 = bool(data) and data[0].get('type') == 'base64Binary'
                atts.append((name, is_b64))
    return C('Build_eschema', props, atts)
