"""Regenerate every Generated/*.v from /repo (used by setup.sh; each check regenerates its own)."""
import importlib, os, sys
sys.path.insert(0, os.path.dirname(os.path.dirname(os.path.abspath(__file__))))
for name in ['c01', 'c08', 'c09', 'c12', 'c13', 'c15', 'c20']:
    m = importlib.import_module('translate.' + name)
    r = m.generate()
    print(name, 'changed' if r[-1] else 'unchanged', r[1])
