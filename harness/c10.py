"""C10 — accepted ontology upgrades are backward compatible with existing events."""
import copy, itertools, json, re, sys
from common.core import Check, C, Z, Nat, coq, run_cases, Raw, Some, compile_defs
import ontolib as OL
import c03lib

PID = 'C10'
ANCHORS = ['edxml/ontology/data_type.py', 'edxml/ontology/object_type.py', 'edxml/ontology/event_type.py', 'edxml/ontology/event_property.py',
           'edxml/ontology/event_type_attachment.py', 'edxml/ontology/event_type_parent.py', 'edxml/ontology/ontology.py', 'edxml/event_validator.py']
IMPORTS = 'From EdxmlVerif Require Import Base.Prelude Base.Bytes Onto.Tree Onto.Kinds Onto.Compat Event.Merge.'


def base():
    b = OL.base_ontology()
    OL._et(b)['properties'].append(OL.PROP('m', 'o', multivalued=True, merge='add'))          # mandatory and multi-valued
    OL._et(b)['properties'].append(OL.PROP('h', 'g', optional=True, multivalued=True))
    return b


EXTRA_EDITS = [
    ('object-type', 'e.enum+c', OL.setter(lambda o: OL._ot(o, 'e'), 'data-type', 'enum:a:b:c')),
    ('object-type', 'e.enum-rename-by-prefix', OL.setter(lambda o: OL._ot(o, 'e'), 'data-type', 'enum:a:bc:d')),
    ('object-type', 'e.enum-insert', OL.setter(lambda o: OL._ot(o, 'e'), 'data-type', 'enum:a:x:b')),
    ('object-type', 'g.regex-hard=x|y', OL.setter(lambda o: OL._ot(o, 'g'), 'regex-hard', '[a-z]+|[0-9]+')),
    ('object-type', 'g.regex-hard=inside', OL.setter(lambda o: OL._ot(o, 'g'), 'regex-hard', '[0-9]+|[a-z]+|[A-Z]')),
    ('object-type', 'g.regex-hard=narrower', OL.setter(lambda o: OL._ot(o, 'g'), 'regex-hard', '[a-c]+')),
    ('object-type', 'n.data-type', OL.setter(lambda o: OL._ot(o, 'n'), 'data-type', 'number:tinyint')),
    ('property', 'ta.h.single', OL.setter(lambda o: OL._prop(o, 'h'), 'multivalued', False)),
    ('property', 'ta.h.mandatory', OL.setter(lambda o: OL._prop(o, 'h'), 'optional', False)),
    ('property', 'ta.r.mandatory', OL.setter(lambda o: OL._prop(o, 'r'), 'optional', False)),
    ('property', 'ta.r.multivalued', OL.setter(lambda o: OL._prop(o, 'r'), 'multivalued', True)),
    ('property', 'ta.q.merge=min', OL.setter(lambda o: OL._prop(o, 'q'), 'merge', 'min')),
    ('property', 'ta.r.merge=match', OL.setter(lambda o: OL._prop(o, 'r'), 'merge', 'match')),
    ('property', 'ta.p.merge=any', OL.setter(lambda o: OL._prop(o, 'p'), 'merge', 'any')),
    ('property', 'ta.r.object-type=o', OL.setter(lambda o: OL._prop(o, 'r'), 'object-type', 'o')),
    ('property', 'ta.q.optional+single', lambda o: OL._prop(o, 'q').update({'optional': True, 'multivalued': False})),
    ('property', 'ta.m.optional', OL.setter(lambda o: OL._prop(o, 'm'), 'optional', True)),
    ('property', 'ta.m.optional+single', lambda o: OL._prop(o, 'm').update({'optional': True, 'multivalued': False})),
    ('property', 'ta.m.optional+object-type', lambda o: OL._prop(o, 'm').update({'optional': True, 'object-type': 'g'})),
    ('property', 'ta.m.optional+merge', lambda o: OL._prop(o, 'm').update({'optional': True, 'merge': 'match'})),
    ('property', 'ta.m.single', OL.setter(lambda o: OL._prop(o, 'm'), 'multivalued', False)),
    ('event-type', 'ta.+hashed-optional-property', lambda o: OL._et(o)['properties'].append(OL.PROP('z', 'o', optional=True, merge='match'))),
]


def event_pool(rng, n):
    """events for event type ta, valid under the base ontology by construction, plus a stream of invalid ones"""
    valid, invalid = [], []
    P = ['abc', 'x y', 'Zürich', '0']
    Q = ['0', '-5', '17', '2147483647', '-2147483648', '300']
    R = ['a', 'b']
    H = ['abc', 'zz', 'q']
    for _ in range(n):
        ev = {'p': [rng.choice(P)], 'm': rng.sample(['m1', 'M 2', 'm3'], rng.randint(1, 2))}
        if rng.random() < 0.7:
            ev['q'] = rng.sample(Q, rng.randint(1, 3))
        if rng.random() < 0.7:
            ev['r'] = [rng.choice(R)]
        if rng.random() < 0.6:
            ev['h'] = rng.sample(H, rng.randint(1, 2))
        valid.append((ev, ['doc'] if rng.random() < 0.3 else []))
    # boundary set: every enum choice, every shape
    valid += [({'p': ['abc'], 'r': ['a']}, []), ({'p': ['abc'], 'r': ['b']}, []), ({'p': ['abc']}, []), ({'p': ['abc'], 'q': Q[:]}, []),
              ({'p': ['abc'], 'h': ['abc', 'zz']}, ['doc']), ({'p': ['abc'], 'q': ['300'], 'r': ['b'], 'h': ['q']}, [])]
    invalid += [({}, []), ({'p': ['abc', 'x y']}, []), ({'p': ['abc'], 'r': ['c']}, []), ({'p': ['abc'], 'r': ['a', 'b']}, []), ({'p': ['abc'], 'zz': ['1']}, []),
                ({'p': ['abc'], 'h': ['ABC']}, []), ({'p': ['abc'], 'h': ['a1']}, []), ({'p': ['abc'], 'q': ['x']}, []), ({'p': ['abc'], 'q': ['1.5']}, []),
                ({'p': ['abc']}, ['nodoc']), ({'q': ['1']}, []), ({'p': ['abc'], 'r': ['bc']}, []), ({'p': ['abc'], 'z': ['new']}, [])]
    for ev, _ in valid[-6:] + invalid:
        if ev:
            ev['m'] = ['m1', 'M 2']
    invalid.append(({'p': ['abc']}, []))        # the mandatory m is missing
    return valid, invalid


def make_event(ev, atts):
    from edxml import EDXMLEvent
    return EDXMLEvent({k: list(v) for k, v in ev.items()}, 'ta', '/s/', None, {a: {'id': 'text'} for a in atts} or None)


def is_valid(validator, ev, atts):
    try:
        return bool(validator.is_valid(make_event(ev, atts)))
    except Exception as e:
        return 'exception:' + type(e).__name__


def try_update(old_def, new_defs):
    """Ontology.update through the chain; returns (accepted, ontology or None, error name)"""
    from edxml.error import EDXMLOntologyValidationError
    A = OL.load_element(old_def)
    for nd in new_defs:
        try:
            A.update(OL.load_element(nd))
        except EDXMLOntologyValidationError:
            return False, None, 'EDXMLOntologyValidationError'
        except Exception as e:
            return False, None, 'foreign:' + type(e).__name__
    return True, A, None


def hash_of(onto, ev, atts):
    return make_event(ev, atts).compute_sticky_hash(onto.get_event_type('ta'))


def merged(onto, evs):
    from edxml.error import EDXMLMergeConflictError
    try:
        m = onto.get_event_type('ta').merge_events([make_event(e, a) for e, a in evs])
    except EDXMLMergeConflictError:
        return 'conflict'
    except Exception as e:
        return 'exception:' + type(e).__name__
    return {k: sorted(v) for k, v in m.get_properties().items() if len(v)}


# ---- model terms
def state_term(d):
    ots = [(x['name'], OL.ot_node(x)) for x in d['object-types']]
    return coq((ots, OL.et_node(OL._et(d), d)))


def event_term(ev, atts):
    return C('Build_event', [(k, list(v)) for k, v in ev.items()], list(atts))


def tables(defs, events):
    """value space of every (data type, value) that occurs, from the independent statement of the value spaces; regex matches by Python re"""
    dts, res, vals = set(), set(), set()
    for d in defs:
        for x in d['object-types']:
            dts.add(x['data-type'])
            if x.get('regex-hard'):
                res.add(x['regex-hard'])
    for ev, _ in events:
        for vs in ev.values():
            vals.update(vs)
    dt_tbl = [(dt, [(v, bool(c03lib.spec_valid(dt, v))) for v in sorted(vals)]) for dt in sorted(dts) if not dt.startswith('enum')]
    re_tbl = [(r, [(v, re.fullmatch(r, v) is not None) for v in sorted(vals)]) for r in sorted(res)]
    return dt_tbl, re_tbl


def replay(path):
    obj = json.load(open(path))
    if obj.get('kind') != 'failing-input':
        print('replay names a broken obligation:', obj.get('obligation'))
        return 0
    print(json.dumps(obj['input'], ensure_ascii=False)[:1500])
    print('observed at check time:', obj.get('observed'))
    return 1


def main(argv):
    import logging
    logging.disable(logging.CRITICAL)
    if len(argv) > 1 and argv[0] == '--replay':
        return replay(argv[1])
    from edxml.event_validator import EventValidator
    ck = Check(PID, ANCHORS)
    ck.trusted += ['the comparison model cmp_* of Onto/Tree.v + Onto/Kinds.v is tied to the __cmp__ implementations by the C09 check; here the overall '
                   'accept/reject decision of Ontology.update is compared with the conjunction of the model verdicts',
                   'value spaces of non-enum data types and regular expression matching are parameters of the model (dt_valid, re_match); for the '
                   'correspondence they are tabulated from harness/c03lib.spec_valid and Python re.fullmatch',
                   'hypothesis re_alt of the theorems: the schema engine reads "old|more" as an alternation whose first branch is old']
    ck.assumptions += ['event property dictionaries have unique keys (wf_et), as Python dicts do',
                       'ordering of values used by min/max merges does not depend on the ontology version (rank is one function)']
    ck.prove()
    rng = ck.rng
    B = base()
    cat = [e for e in OL.edit_catalogue()] + EXTRA_EDITS
    by_name = {e[1]: e for e in cat}
    scenarios = [[(e,)] for e in cat]                                                      # single edits
    names = sorted(by_name)
    from c11 import INVALID
    breaking = set(INVALID) | {'e.enum-rename-by-prefix', 'e.enum-insert', 'g.regex-hard=inside', 'g.regex-hard=narrower', 'n.data-type', 'ta.h.single', 'ta.h.mandatory',
                               'ta.r.mandatory', 'ta.q.merge=min', 'ta.r.merge=match', 'ta.p.merge=any', 'ta.r.object-type=o', 'ta.q.optional+single',
                               'ta.p.optional+object-type', 'ta.p.optional+merge', 'ta.m.optional+single', 'ta.m.optional+object-type', 'ta.m.optional+merge', 'ta.m.single'}
    benign = [n for n in names if n not in breaking]

    def pick(k):
        # mostly compatible edits, so that compound upgrades and chains are accepted often enough; one breaking edit now and then
        sel = rng.sample(benign, k)
        if rng.random() < 0.35:
            sel[rng.randrange(k)] = rng.choice(sorted(breaking & set(names)))
        return tuple(by_name[n] for n in sel)
    for _ in range(ck.budget(60, 600)):                                                    # compound edits (one step)
        scenarios.append([pick(rng.randint(2, 3))])
    for _ in range(ck.budget(40, 400)):                                                    # chains of 2-3 successive upgrades
        scenarios.append([pick(rng.randint(1, 2)) for _ in range(rng.randint(2, 3))])
    valid_pool, invalid_pool = event_pool(rng, ck.budget(25, 120))
    vB = EventValidator(OL.load_element(B))
    for ev, atts in valid_pool:
        if is_valid(vB, ev, atts) is not True:
            ck.oracle_failures.append({'signature': 'generator/valid-event-rejected-by-base', 'input': {'event': ev, 'attachments': atts}, 'observed': 'base ontology rejects it'})
    OB = OL.load_element(B)
    base_hash = [hash_of(OB, ev, atts) for ev, atts in valid_pool]
    # colliding groups (same hash) for the merge comparison
    groups = {}
    for (ev, atts), h in zip(valid_pool, base_hash):
        groups.setdefault(h, []).append((ev, atts))
    collide = [g[:3] for g in groups.values() if len(g) >= 2][:12]
    base_merge = [merged(OB, g) for g in collide]

    state_defs, state_names = {}, {}

    def state(d):
        t = state_term(d)
        if t not in state_names:
            state_names[t] = 'st_%d' % len(state_names)
            state_defs[state_names[t]] = d
        return Raw(state_names[t])
    dec_terms, dec_meta, val_terms, val_meta, cfg_terms, cfg_meta = [], [], [], [], [], []
    all_defs = [B]
    for sc in scenarios:
        defs, cur, ok = [], B, True
        for step, edits in enumerate(sc):
            try:
                cur = OL.apply_edits(cur, list(edits), bump=step + 2)
                OL.load_element(cur)
            except Exception:
                ok = False
                break
            defs.append(cur)
        if not ok or not defs:
            ck.dist('scenario:not-a-loadable-ontology')
            continue
        label = ' ; '.join('+'.join(e[1] for e in edits) for edits in sc)
        accepted, U, err = try_update(B, defs)
        ck.cov['evaluations'] += 1
        ck.dist('steps:%d' % len(sc))
        ck.dist('decision:' + ('accepted' if accepted else err))
        inp = {'edits': label, 'base': 'harness/c10.py base()'}
        if err and err.startswith('foreign:'):
            ck.oracle_failures.append({'signature': 'update-raises/' + err, 'input': inp, 'observed': err})
            continue
        all_defs += defs
        # decision correspondence: one step scenarios (the model compares element by element)
        if len(sc) == 1:
            dec_terms.append(coq((state(B), state(defs[0]), accepted)))
            dec_meta.append(inp)
        if not accepted:
            continue
        vU = EventValidator(U)
        # ... and under the accepted new definitions on their own (a consumer may hold only the newer ontology)
        try:
            vN = EventValidator(OL.load_element(defs[-1]))
        except Exception:
            vN = None
        for i, (ev, atts) in enumerate(valid_pool):
            ck.cov['evaluations'] += 1
            r = is_valid(vU, ev, atts)
            if r is True and vN is not None:
                r = is_valid(vN, ev, atts)
                if r is not True:
                    r = '%s under the newer definitions alone' % r
            if r is not True:
                ck.oracle_failures.append({'signature': 'accepted-upgrade-invalidates-event/' + label, 'input': dict(inp, event=ev, attachments=atts),
                                           'observed': 'valid under the old ontology, %s under the accepted upgrade' % r})
                break
            h = hash_of(U, ev, atts)
            if h != base_hash[i]:
                ck.oracle_failures.append({'signature': 'accepted-upgrade-changes-hash/' + label, 'input': dict(inp, event=ev, attachments=atts),
                                           'observed': 'sticky hash %s -> %s' % (base_hash[i], h)})
                break
        for g, bm in zip(collide, base_merge):
            m = merged(U, g)
            ck.cov['evaluations'] += 1
            if m != bm:
                ck.oracle_failures.append({'signature': 'accepted-upgrade-changes-merge/' + label, 'input': dict(inp, events=[e for e, _ in g]),
                                           'observed': 'merge %r -> %r' % (bm, m)})
                break
        # semantics correspondence on the upgraded ontology (its definition = element-wise newest, here: the last accepted definition)
        final = defs[-1]
        for ev, atts in rng.sample(valid_pool, 4) + rng.sample(invalid_pool, 4):
            val_terms.append(coq((state(final), event_term(ev, atts), is_valid(vU, ev, atts) is True)))
            val_meta.append(dict(inp, event=ev, attachments=atts))
        et = U.get_event_type('ta')
        cfg_terms.append(coq((state(final), sorted(et.get_hashed_properties()),
                              sorted((n, p.get_merge_strategy()) for n, p in et.get_properties().items()), et.get_version_property_name() or '')))
        cfg_meta.append(inp)
        ck.cov['distinct_nontrivial'] += 1
    for ev, atts in valid_pool + invalid_pool:
        val_terms.append(coq((state(B), event_term(ev, atts), is_valid(vB, ev, atts) is True)))
        val_meta.append({'edits': '(base)', 'event': ev, 'attachments': atts})
    ck.sample({'scenarios': len(scenarios), 'valid_events': len(valid_pool), 'invalid_events': len(invalid_pool), 'colliding_groups': len(collide)})
    dt_tbl, re_tbl = tables(all_defs, valid_pool + invalid_pool)
    text = ['Definition dt_tbl : list (str * list (str * bool)) := %s.' % coq(dt_tbl), 'Definition re_tbl : list (str * list (str * bool)) := %s.' % coq(re_tbl),
            'Definition stT := (list (str * T0) * T2)%type.',
            'Definition okc (c : cmpres) : bool := match c with Eq | Older => true | _ => false end.',
            '(* Ontology.update accepts iff every element of the other ontology is equal to or a valid upgrade of ours *)',
            'Definition accept (a b : stT) : bool :=',
            '  forallb (fun kn => match aget (fst kn) (fst a) with Some o => okc (cmp_objtype o (snd kn)) | None => true end) (fst b) && okc (cmp_etype true (snd a) (snd b)).',
            'Definition strat_name (s : strategy) : str := match s with SMatch => A "match" | SAny => A "any" | SAdd => A "add" | SSet => A "set" | SReplace => A "replace" | SMin => A "min" | SMax => A "max" end.']
    for nm, d in state_defs.items():
        text.append('Definition %s : stT := %s.' % (nm, state_term(d)))
    shared, out = compile_defs(PID, IMPORTS, '\n'.join(text))
    if shared is None:
        ck.corr_failures.append({'coq_error': out[-2000:]})
    else:
        runs = [('decision', 'stT * stT * bool', dec_terms, dec_meta, 'fun c => match c with (a, b, obs) => Bool.eqb (accept a b) obs end'),
                ('validity', 'stT * event * bool', val_terms, val_meta,
                 'fun c => match c with (s, e, obs) => Bool.eqb (valid_event (lookup2 dt_tbl) (lookup2 re_tbl) (fst s) (snd s) e) obs end'),
                ('config', 'stT * list str * list (str * str) * str', cfg_terms, cfg_meta,
                 'fun c => match c with (s, hashed, strat, ver) => strs_eqb (Bytes.sort (hashed_of (snd s))) hashed && '
                 'Nat.eqb (length strat) (length (et_strat (etype_of (snd s)))) && '
                 'forallb (fun kv => match aget (fst kv) (et_strat (etype_of (snd s))) with Some st => str_eqb (strat_name st) (snd kv) | None => false end) strat && '
                 'str_eqb (match et_version (etype_of (snd s)) with Some v => v | None => [] end) ver end')]
        total = 0
        for tag, ty, terms, metas, fn in runs:
            bad, errs = run_cases(PID, IMPORTS, ty, terms, fn, shard=250, defs=shared, tag='t2' + tag)
            total += len(terms)
            for i in bad[:8]:
                ck.corr_failures.append({'case': metas[i], 'model': tag + ' differs'})
            for e in errs[:2]:
                ck.corr_failures.append({'coq_error': e})
            ck.cov['cases_' + tag] = len(terms)
        ck.cov['traces_validated_against_impl'] = total
    ck.cov['exhaustive'] = False
    ck.cov['rule'] = ('(old, new) pairs from every single edit of the catalogue (attributes of every element kind, enum extension / rename / insertion, regex-hard '
                      'extension / narrowing, added / removed / retyped properties, optional / multivalued both ways, merge strategies, attachments, parents), random '
                      'compound edits and chains of 2-3 upgrades; for every accepted upgrade: every old-valid event (incl. every enum choice, regex-hard values, '
                      'multi-valued sets, attachments) re-validated with the real EventValidator, sticky hash and merge of colliding events compared')
    return ck.finish()


if __name__ == '__main__':
    sys.exit(main(sys.argv[1:]))
