"""C03 — the validation gate decides exactly EDXML event validity, whatever the history."""
import copy, io, json, sys, unicodedata
from lxml import etree
from common.core import Check, C, coq, run_cases, Raw, compile_defs, Z
from common import gen_doc as G
import ontolib as OL
import c03lib as L
from translate import rng as RNG

PID = 'C03'
ANCHORS = ['edxml/event_validator.py', 'edxml/ontology/event_type.py', 'edxml/ontology/data_type.py', 'edxml/ontology/object_type.py',
           'edxml/writer.py', 'edxml/parser.py', 'edxml/event.py']
IMPORTS = 'From EdxmlVerif Require Import Base.Prelude Base.Regex Valid.Gate.'
NS = 'http://edxml.org/edxml'


def family_sig(dt):
    p = dt.split(':')
    return ':'.join(p[:2]) if p[0] in ('number', 'ip', 'geo') else p[0]


def char_class(v):
    if any(ord(c) > 127 and unicodedata.category(c) == 'Nd' for c in v):
        return 'non-ascii-digit'
    if v != v.strip():
        return 'whitespace'
    if any(ord(c) > 127 for c in v):
        return 'non-ascii'
    return 'ascii'


def gates(onto, etname, props, atts=None, parents=None, raw_xml=None):
    """verdicts of the four observation points for one event (None where the representation cannot express it)"""
    from edxml import EDXMLEvent, EventElement, EDXMLPullParser, EDXMLWriter
    from edxml.event_validator import EventValidator
    from edxml.error import EDXMLEventValidationError, EDXMLValidationError
    out = {}
    v = EventValidator(onto)
    vals = {}
    for k, x in props:
        vals.setdefault(k, []).append(x)
    attd = {}
    for n, i, x in (atts or []):
        attd.setdefault(n, {})[i] = x
    for name, cls in (('EDXMLEvent', EDXMLEvent), ('EventElement', EventElement)):
        try:
            ev = cls(vals, etname, '/s/', parents, attd or None)
            out[name] = v.is_valid(ev)
            if name == 'EDXMLEvent':
                out['event.is_valid'] = ev.is_valid(onto)
                try:
                    w = EDXMLWriter(io.BytesIO())
                    w.add_ontology(onto)
                    w.add_event(ev)
                    out['writer'] = True
                except EDXMLEventValidationError:
                    out['writer'] = False
        except (ValueError, TypeError) as e:
            out[name] = 'unrepresentable'      # e.g. characters that cannot be stored in XML
    return out


def parser_gate(onto_def, event_xml_text):
    from edxml import EDXMLPullParser
    from edxml.error import EDXMLEventValidationError, EDXMLValidationError
    doc = G.document([OL.onto_xml(onto_def), event_xml_text])
    try:
        EDXMLPullParser().parse(io.BytesIO(doc))
        return True
    except EDXMLEventValidationError:
        return False
    except EDXMLValidationError as e:
        return 'xml-error'
    except Exception as e:
        return 'foreign-exception:' + type(e).__name__


def unicode_tables(values):
    chars = sorted({c for v in values for c in v})
    return [('Nd', [ord(c) for c in chars if unicodedata.category(c) == 'Nd']),
            ('space', [ord(c) for c in chars if c in ' \t\r\n']),
            ('Lu', [ord(c) for c in chars if unicodedata.category(c) == 'Lu']),
            ('Ll', [ord(c) for c in chars if unicodedata.category(c) == 'Ll']),
            ('IsBasicLatin', [ord(c) for c in chars if ord(c) < 128]),
            ('IsLatin-1Supplement', [ord(c) for c in chars if 128 <= ord(c) < 256])]


def structure_def():
    return OL.ONTO(object_types=[OL.OT('o'), OL.OT('n', 'number:tinyint')],
                   event_types=[OL.ET('ta', [OL.PROP('m1', 'o'), OL.PROP('mm', 'o', multivalued=True), OL.PROP('o1', 'n', optional=True),
                                             OL.PROP('oo', 'n', optional=True, multivalued=True)],
                                      attachments=[OL.ATT('doc'), OL.ATT('bin', encoding='base64')])],
                   sources=[OL.SOURCE('/s/')])


def structure_cases():
    """(label, properties, attachments, parents, expected verdict)"""
    base = [('m1', 'a'), ('mm', 'b')]
    H = 'a' * 40
    yield 'valid-minimal', base, None, None, True
    yield 'valid-full', base + [('mm', 'c'), ('o1', '5'), ('oo', '6'), ('oo', '7')], [('doc', 'i1', 'text'), ('bin', 'i2', 'YWJjZGVm')], [H], True
    yield 'three-byte-base64-attachment', base, [('bin', 'i1', 'YWJj')], None, True
    yield 'missing-mandatory-single', [('mm', 'b')], None, None, False
    yield 'missing-mandatory-multi', [('m1', 'a')], None, None, False
    yield 'repeated-single-mandatory', base + [('m1', 'x')], None, None, False
    yield 'repeated-single-optional', base + [('o1', '1'), ('o1', '2')], None, None, False
    yield 'undeclared-property', base + [('zz', 'x')], None, None, False
    yield 'invalid-value', base + [('o1', '256')], None, None, False
    yield 'invalid-value-in-multi', base + [('oo', '1'), ('oo', 'x')], None, None, False
    yield 'empty-value', [('m1', ''), ('mm', 'b')], None, None, False
    yield 'undeclared-attachment', base, [('zz', 'i1', 'text')], None, False
    yield 'empty-attachment', base, [('doc', 'i1', '')], None, False
    yield 'bad-base64-attachment', base, [('bin', 'i1', '!!!!')], None, False
    yield 'attachment-id-too-long', base, [('doc', 'i' * 41, 'text')], None, False
    yield 'two-attachment-values', base, [('doc', 'i1', 'a'), ('doc', 'i2', 'b')], None, True
    yield 'bad-parent-hash', base, None, ['xyz'], False
    yield 'uppercase-parent-hash', base, None, ['A' * 40], False
    yield 'two-parents', base, None, [H, 'b' * 40], True


def raw_structure_cases():
    """events only expressible as XML text: (label, event xml, expected)"""
    P = '<properties><m1>a</m1><mm>b</mm></properties>'
    yield 'xml-valid', '<event event-type="ta" source-uri="/s/">%s</event>' % P, True
    yield 'xml-foreign-attribute-namespaced', '<event xmlns:f="http://f/" f:k="v" event-type="ta" source-uri="/s/">%s</event>' % P, True
    yield 'xml-foreign-attribute-without-namespace', '<event k="v" event-type="ta" source-uri="/s/">%s</event>' % P, False
    yield 'xml-empty-parents', '<event event-type="ta" source-uri="/s/" parents="">%s</event>' % P, False
    yield 'xml-attachment-without-id', '<event event-type="ta" source-uri="/s/">%s<attachments><doc>t</doc></attachments></event>' % P, False
    yield 'xml-properties-missing', '<event event-type="ta" source-uri="/s/"></event>', False
    yield 'xml-text-in-properties', '<event event-type="ta" source-uri="/s/"><properties>x<m1>a</m1><mm>b</mm></properties></event>', False
    yield 'xml-nested-property', '<event event-type="ta" source-uri="/s/"><properties><m1><x/>a</m1><mm>b</mm></properties></event>', False
    yield 'xml-unknown-child', '<event event-type="ta" source-uri="/s/">%s<extra/></event>' % P, False
    yield 'xml-bad-source-uri', '<event event-type="ta" source-uri="s">%s</event>' % P, 'source-undefined'


def replay(path):
    obj = json.load(open(path))
    if obj.get('kind') != 'failing-input':
        print('replay names a broken obligation:', obj.get('obligation'))
        return 0
    i = obj['input']
    if 'data_type' in i:
        onto = L.make_ontology(i['data_type'], i.get('regex_hard'))
        g = gates(onto, 'ta', [('v', i['value'])])
        exp = L.spec_valid(i['data_type'], i['value'], i.get('regex_hard'))
        print('data type', i['data_type'], 'value', repr(i['value']), 'gate', g, 'value space says', exp)
        return 1 if any(x in (True, False) and x != exp for x in g.values()) else 0
    print(json.dumps(i)[:1500])
    return 1


def main(argv):
    if len(argv) > 1 and argv[0] == '--replay':
        return replay(argv[1])
    ck = Check(PID, ANCHORS)
    ck.trusted += ['libxml2 RelaxNG / XSD datatype engine is represented by Valid/Gate.v + Base/Regex.v (correspondence-checked); Unicode classes '
                   'are tabulated by the harness (unicodedata) for the characters that occur',
                   'T1: harness/translate/rng.py translates the RelaxNG that the running code generates (incl. every pattern) into Gallina terms',
                   'the value spaces of harness/c03lib.py (spec_valid) are written from the EDXML specification; where it is silent no verdict is asserted']
    ck.assumptions += ['float/double/decimal/dateTime/base64Binary/hexBinary lexical spaces are outside the Gallina model (verdicts by oracle only)']
    ck.prove()
    rng = ck.rng
    seen = set()
    # ---------------- A: value spaces ----------------
    cat = L.catalogue()
    cat['string:0:mc:u|[a-z]+x'] = ['abcx', 'x', 'abc', 'ABCx', 'abcxx']
    terms, metas = [], []
    allvals = [v for vs in cat.values() for v in vs]
    tables = unicode_tables(allvals + ['abcx'])
    for key, values in cat.items():
        dt, _, rh = key.partition('|')
        rh = rh or None
        try:
            onto = L.make_ontology(dt, rh)
        except Exception as e:
            ck.oracle_failures.append({'signature': 'ontology-rejected/' + family_sig(dt), 'input': {'data_type': dt}, 'observed': repr(e)})
            continue
        # T1: the schema the running code generates for this type
        try:
            real = onto.get_event_type('ta').generate_relax_ng(onto, namespaced=False).getroot()
            schema_term = RNG.event_schema(real)
        except RNG.Untranslatable as e:
            schema_term = None
            ck.notes.append('untranslatable schema for %s: %s' % (dt, e))
        extra = list(values)
        if ck.thorough():
            for v in values[:6]:           # single character mutations
                for k in range(len(v)):
                    extra.append(v[:k] + rng.choice('0aZ -.:') + v[k + 1:])
        for val in extra:
            if any(c in val for c in '\x00\x0b'):
                continue
            g = gates(onto, 'ta', [('v', val)])
            exp = L.spec_valid(dt, val, rh)
            ck.cov['evaluations'] += 1
            ck.dist('family:' + family_sig(dt))
            k2 = (dt, val)
            if k2 not in seen and exp is not None:
                ck.cov['distinct_nontrivial'] += 1
            seen.add(k2)
            verdicts = {k: x for k, x in g.items() if x in (True, False)}
            inp = {'data_type': dt, 'value': val, 'regex_hard': rh}
            if len(set(verdicts.values())) > 1:
                ck.oracle_failures.append({'signature': 'representations-disagree/' + family_sig(dt), 'input': inp, 'observed': repr(g)})
            if exp is not None and verdicts:
                got = verdicts.get('EDXMLEvent')
                if got is not None and got != exp:
                    ck.oracle_failures.append({'signature': 'value/%s/%s/%s' % (family_sig(dt), 'accepted-invalid' if got else 'rejected-valid', char_class(val)),
                                               'input': inp, 'observed': 'gate says %s, the value space says %s' % (got, exp)})
            if schema_term is not None and 'EDXMLEvent' in verdicts:
                terms.append(coq((Raw(defname(schema_term)), [('v', val)], verdicts['EDXMLEvent'])))
                metas.append(inp)
        ck.sample({'data_type': dt, 'values': values[:5]}, limit=3)
    # ---------------- A': T1 — the integer schemas of the running code are the ones the all-strings theorems are about ----------------
    from edxml.ontology import DataType
    INT_SCHEMAS = {'tinyint': ('XUByte', None, None, 'XByte', None, None), 'smallint': ('XUShort', None, None, 'XShort', None, None),
                   'mediumint': ('XUInt', None, 2 ** 24 - 1, 'XInt', -(2 ** 23), 2 ** 23 - 1), 'int': ('XUInt', None, None, 'XInt', None, None),
                   'bigint': ('XULong', None, None, 'XLong', None, None)}
    rec_terms, rec_meta = [], []
    some_z = lambda x: C('Some', Z(x)) if x is not None else None
    for kind, (ut, umn, umx, st, smn, smx) in INT_SCHEMAS.items():
        for signed in (False, True):
            dt = 'number:%s%s' % (kind, ':signed' if signed else '')
            try:
                term = RNG.value_schema(DataType(dt).generate_relaxng(None))
            except Exception as e:
                ck.obligation_failures.append(('T1:integer-schema', '%s: %r' % (dt, e)))
                continue
            exp = C('sint_spec' if signed else 'uint_spec', C(st if signed else ut), some_z(smn if signed else umn), some_z(smx if signed else umx))
            rec_terms.append(coq((term, exp)))
            rec_meta.append(dt)
    bad_rec, errs_rec = run_cases(PID, 'From EdxmlVerif Require Import Base.Prelude Base.Regex Valid.Gate Valid.Gate_int.', 'vschema * dataspec', rec_terms,
                                  'fun c => match fst c with VData d => dataspec_eqb d (snd c) | _ => false end', tag='t1int')
    for i in bad_rec:
        ck.obligation_failures.append(('T1:integer-schema', 'the schema generated for %s is not the integer schema of theorems C03_*_integer_value_space' % rec_meta[i]))
    for e in errs_rec[:2]:
        ck.obligation_failures.append(('T1:integer-schema', e))
    ck.cov['integer_schemas_recognised'] = len(rec_terms) - len(bad_rec)
    # ---------------- B: structure ----------------
    sdef = structure_def()
    sonto = OL.load_element(sdef)
    try:
        sschema = RNG.event_schema(sonto.get_event_type('ta').generate_relax_ng(sonto, namespaced=False).getroot())
    except RNG.Untranslatable as e:
        sschema = None
        ck.notes.append('untranslatable structure schema: %s' % e)
    for label, props, atts, parents, exp in structure_cases():
        g = gates(sonto, 'ta', props, atts, parents)
        pg = parser_gate(sdef, G.event_xml('ta', '/s/', props, atts, parents))
        g['parser'] = pg
        ck.cov['evaluations'] += 1
        ck.cov['distinct_nontrivial'] += 1
        ck.dist('structure')
        verdicts = {k: x for k, x in g.items() if x in (True, False)}
        inp = {'structure_case': label, 'properties': props, 'attachments': atts, 'parents': parents}
        for k, x in verdicts.items():
            if x != exp:
                ck.oracle_failures.append({'signature': 'structure/%s/%s/%s' % (label, 'accepted-invalid' if x else 'rejected-valid', k), 'input': inp,
                                           'observed': '%s says %s, expected %s' % (k, x, exp)})
        if sschema is not None and atts is None and parents is None and 'EDXMLEvent' in verdicts:
            terms.append(coq((Raw(defname(sschema)), props, verdicts['EDXMLEvent'])))
            metas.append(inp)
    for label, xml, exp in raw_structure_cases():
        pg = parser_gate(sdef, xml)
        ck.cov['evaluations'] += 1
        if isinstance(pg, str) and pg.startswith('foreign-exception'):
            ck.oracle_failures.append({'signature': 'structure/%s/%s' % (label, pg), 'input': {'structure_case': label, 'event_xml': xml},
                                       'observed': 'the parser raised ' + pg})
        elif exp in (True, False) and pg != exp:
            ck.oracle_failures.append({'signature': 'structure/%s/%s/parser' % (label, 'accepted-invalid' if pg is True else 'rejected-valid'),
                                       'input': {'structure_case': label, 'event_xml': xml}, 'observed': 'parser says %s, expected %s' % (pg, exp)})
    # ---------------- C: history independence ----------------
    from edxml import EDXMLEvent
    from edxml.event_validator import EventValidator
    hist_ok = True
    for it in range(ck.budget(30, 400)):
        onto = OL.load_element(structure_def())
        v = EventValidator(onto)
        def parsed(props):
            from edxml import EDXMLPullParser
            got = []

            class P(EDXMLPullParser):
                def _parsed_event(self, e):
                    got.append(e)
            P(validate=False).parse(io.BytesIO(G.document([OL.onto_xml(structure_def()), G.event_xml('ta', '/s/', props)])))
            return got[0]
        events = [parsed([('m1', 'a'), ('mm', 'b')]), parsed([('mm', 'b')]), parsed([('m1', 'a'), ('mm', 'b'), ('o1', '300')]),
                  parsed([('m1', 'a'), ('m1', 'x'), ('mm', 'b')]), parsed([('m1', 'a'), ('mm', 'b'), ('new', 'z')]),
                  EDXMLEvent({'m1': ['a'], 'mm': ['b']}, 'ta', '/s/'), EDXMLEvent({'mm': ['b']}, 'ta', '/s/'),
                  EDXMLEvent({'m1': ['a'], 'mm': ['b'], 'o1': ['300']}, 'ta', '/s/'), EDXMLEvent({'m1': ['a', 'x'], 'mm': ['b']}, 'ta', '/s/'),
                  EDXMLEvent({'m1': ['a'], 'mm': ['b'], 'new': ['z']}, 'ta', '/s/')]
        muts = [lambda o: o.get_event_type('ta')['m1'].make_optional(), lambda o: o.get_event_type('ta')['m1'].make_multivalued(),
                lambda o: o.get_object_type('n').set_data_type(__import__('edxml.ontology', fromlist=['DataType']).DataType('number:smallint')),
                lambda o: o.get_event_type('ta').create_property('new', 'o').make_optional(),
                lambda o: o.get_object_type('o').set_regex_hard('[a-y]+'),
                lambda o: o.get_object_type('o').set_data_type(__import__('edxml.ontology', fromlist=['DataType']).DataType('string:1:mc:u')),
                lambda o: o.get_event_type('ta')['oo'].make_single_valued()]
        steps = []
        # the first histories are directed: validate every event, apply ONE change, validate every event again
        plan = None
        if it < len(muts):
            plan = [('v', k) for k in range(len(events))] + [('m', it)] + [('v', k) for k in range(len(events))]
        for step in range(len(plan) if plan else rng.randint(2, 8)):
            if (plan[step][0] == 'm') if plan else (rng.random() < 0.4):
                k = plan[step][1] if plan else rng.randrange(len(muts))
                try:
                    muts[k](onto)
                except Exception:
                    pass
                steps.append('mutate%d' % k)
            else:
                k = plan[step][1] if plan else rng.randrange(len(events))
                got = v.is_valid(events[k])
                # the reference: a new validator over a new ontology object read back from the current serialisation (shares no cache with `onto`)
                from edxml.ontology import Ontology as _Ontology
                fresh_onto = _Ontology()
                fresh_onto.update(etree.fromstring(G.document([etree.tostring(onto.generate_xml()).decode('utf-8')]))[0])
                want = EventValidator(fresh_onto).is_valid(events[k])
                ck.dist('history-rep:' + type(events[k]).__name__)
                steps.append('validate%d' % k)
                ck.cov['evaluations'] += 1
                if got != want:
                    hist_ok = False
                    ck.oracle_failures.append({'signature': 'history/verdict-depends-on-earlier-validations', 'input': {'history': steps},
                                               'observed': 'validator with history says %s, a fresh validator says %s' % (got, want)})
                    break
    ck.dist('histories', ck.budget(30, 400))
    # ---------------- D: correspondence of the gate model ----------------
    text = '\n'.join('Definition %s : eschema := %s.' % (nm, t) for t, nm in DEFS.items())
    text += '\nDefinition utab := %s.' % coq(tables)
    shared, out = compile_defs(PID, IMPORTS, text)
    if shared is None:
        ck.corr_failures.append({'coq_error': out[-2000:]})
        bad, errs = [], []
    else:
        agree = ('fun c => match c with (es, children, verdict) => match gate_props (table_prop utab) es children with '
                 'Some b => Bool.eqb b verdict | None => true end end')
        bad, errs = run_cases(PID, IMPORTS, 'eschema * list (str * str) * bool', terms, agree, shard=300, defs=shared)
    for i in bad[:10]:
        ck.corr_failures.append({'case': metas[i], 'model': 'gate model verdict differs from libxml2'})
    for e in errs[:3]:
        ck.corr_failures.append({'coq_error': e})
    ck.cov['traces_validated_against_impl'] = len(terms)
    ck.cov['disagreements_checked'] = len(bad)
    ck.cov['schemas_translated'] = len(DEFS)
    ck.cov['rule'] = ('directed boundary-value catalogue per data type family and parameterisation (%d data types), verdicts fixed by an independent '
                      'statement of each value space; structural single-fault mutations of valid events (objects and raw XML); validate/mutate '
                      'histories; verdicts of EventValidator on EDXMLEvent and EventElement, EDXMLEvent.is_valid, EDXMLWriter.add_event and '
                      'EDXMLPullParser; non-trivial = a value with a stated verdict' % len(cat))
    return ck.finish()


DEFS = {}


def defname(term):
    t = coq(term)
    if t not in DEFS:
        DEFS[t] = 'es_%d' % len(DEFS)
    return DEFS[t]


if __name__ == '__main__':
    sys.exit(main(sys.argv[1:]))
