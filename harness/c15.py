"""C15 — damaged or hostile input fails safely with an EDXML error."""
import glob, io, json, os, re, signal, sys, traceback
from lxml import etree
from common.core import Check, C, Z, Nat, coq, run_cases, Raw, Some, REPO
from common import gen_doc as G
import ontolib as OL
import c08lib

PID = 'C15'
ANCHORS = ['edxml/parser.py', 'edxml/error.py', 'edxml/ontology/ontology.py', 'edxml/ontology/event_type.py', 'edxml/ontology/event_property.py',
           'edxml/ontology/object_type.py', 'edxml/ontology/concept.py', 'edxml/ontology/event_source.py', 'edxml/event.py', 'edxml/event_validator.py',
           'edxml/cli/edxml_validate.py']
IMPORTS = 'From EdxmlVerif Require Import Base.Prelude Parse.Safe.'
NS = 'http://edxml.org/edxml'


class Hang(Exception):
    pass


def _alarm(signum, frame):
    raise Hang()


def seed_documents(rng, n):
    """valid documents: the base ontology with events, rich generated ontologies with events, the repository corpus"""
    docs = []
    b = OL.base_ontology()
    evs = [G.event_xml('ta', '/s/', [('p', 'abc'), ('q', '5'), ('q', '7'), ('r', 'a')], attachments=[('doc', 'id1', 'text')])]
    evs.append(G.event_xml('ta', '/s/', [('p', 'x y')]))
    evs.append(G.event_xml('parent', '/s/', [('k', 'abc')]))
    docs.append(('base', G.document([OL.onto_xml(b)] + evs)))
    docs.append(('no-ontology', G.document([])))
    docs.append(('two-ontologies', G.document([OL.onto_xml(b), evs[1], OL.onto_xml(OL.ONTO(object_types=[OL.OT('zz', 'number:int')], sources=[OL.SOURCE('/z/')])), evs[2]])))
    # a later ontology element that edits the first one: every edit of the catalogue (acceptable or not), with and without a new version
    for e in OL.edit_catalogue():
        for bump in (2, None):
            try:
                up = OL.apply_edits(b, [e], bump)
            except Exception:
                continue
            docs.append(('upgrade:%s@%s' % (e[1], bump or 1), G.document([OL.onto_xml(b), evs[0], OL.onto_xml(up), evs[0], evs[2]])))
    # the same on a small event type whose properties no other definition refers to: properties renamed / dropped / added in any combination
    import copy as _copy
    small = OL.ONTO(object_types=[OL.OT('o')], sources=[OL.SOURCE('/s/')],
                    event_types=[OL.ET('ea', [OL.PROP('p', 'o', optional=True, multivalued=True), OL.PROP('q', 'o', optional=True, multivalued=True)])])
    ev_small = G.event_xml('ea', '/s/', [('p', 'x'), ('q', 'y')])
    new_prop = {'optional': OL.PROP('r', 'o', optional=True), 'mandatory': OL.PROP('r', 'o'), 'none': None}
    for drop in (None, 'q', 'p'):
        for add in ('none', 'optional', 'mandatory'):
            for extra in (False, True):
                for version in (2, 1):
                    up = _copy.deepcopy(small)
                    et = up['event-types'][0]
                    et['version'] = version
                    if drop:
                        et['properties'] = [x for x in et['properties'] if x['name'] != drop]
                    if new_prop[add]:
                        et['properties'].append(_copy.deepcopy(new_prop[add]))
                    if extra:
                        et['properties'].append(OL.PROP('s', 'o', optional=True))
                    label = 'upgrade:small/drop-%s/add-%s%s@%d' % (drop, add, '+optional' if extra else '', version)
                    docs.append((label, G.document([OL.onto_xml(small), ev_small, OL.onto_xml(up), ev_small])))
    for i in range(n):
        text = c08lib.gen_ontology(rng)
        docs.append(('generated-%d' % i, G.document([text, G.event_xml('ta', '/s/', [('p', 'value %d' % i)])])))
    for path in sorted(glob.glob(os.path.join(REPO, 'tests', '**', '*.edxml'), recursive=True))[:6]:
        data = open(path, 'rb').read()
        if len(data) < 60000:
            docs.append((os.path.relpath(path, REPO), data))
    return docs


ATTR_RE = re.compile(rb' ([A-Za-z][A-Za-z0-9-]*)="([^"]*)"')
TAG_RE = re.compile(rb'<([a-z][a-z0-9-]*)\b[^>]*?/>|<([a-z][a-z0-9-]*)\b[^>]*>.*?</\2>', re.S)


TOKEN_RE = re.compile(rb'<(/?)([A-Za-z][A-Za-z0-9:._-]*)([^<>]*?)(/?)>')


def element_spans(data):
    """(start, end, tag) of every element, nested ones included"""
    out, stack = [], []
    for m in TOKEN_RE.finditer(data):
        closing, tag, _, selfclosing = m.group(1), m.group(2), m.group(3), m.group(4)
        if closing:
            if stack and stack[-1][1] == tag:
                st, _ = stack.pop()
                out.append((st, m.end(), tag.decode()))
        elif selfclosing:
            out.append((m.start(), m.end(), tag.decode()))
        else:
            stack.append((m.start(), tag))
    return out


def mutate(rng, data):
    """one fault; returns (kind, mutated bytes)"""
    k = rng.randrange(14)
    n = len(data)
    if k == 0:
        i = rng.randrange(n)
        return 'truncate', data[:i]
    if k == 1:
        i = rng.randrange(n)
        return 'bit-flip', data[:i] + bytes([data[i] ^ (1 << rng.randrange(8))]) + data[i + 1:]
    if k == 2:
        i, j = sorted(rng.sample(range(n), 2))
        return 'delete-range', data[:i] + data[min(j, i + 40):]
    if k == 3:
        i, j = sorted(rng.sample(range(n), 2))
        j = min(j, i + 200)
        p = rng.randrange(n)
        return 'splice', data[:p] + data[i:j] + data[p:]
    if k == 4:
        i = rng.randrange(n)
        return 'insert-bytes', data[:i] + rng.choice([b'<', b'>', b'&', b'"', b'\x00', b'\xff\xfe', b'<!--', b']]>', b'<?xml?>', b'</edxml>', b'<x:y/>']) + data[i:]
    attrs = list(ATTR_RE.finditer(data))
    if k in (5, 6, 7, 8) and attrs:
        m = rng.choice(attrs)
        name, val = m.group(1), m.group(2)
        if k == 5:
            return 'delete-attribute:' + name.decode(), data[:m.start()] + data[m.end():]
        if k == 6:
            new = rng.choice([b'x', b'', b'-1', b'1.5', b'99999999999999999999', b'true', b'\xc3\xa9', b' ', b'a' * 300, b'0', b'3.x.0', b'3.1.0', b'4.0.0', b'3.0', b'.0.0', b'3..0', b'3.0.', b'..'])
            return 'retype-attribute:' + name.decode(), data[:m.start(2)] + new + data[m.end(2):]
        if k == 7:
            if rng.random() < 0.5:
                return 'add-unknown-attribute', data[:m.end()] + b' zz-unknown="1"' + data[m.end():]
            return 'rename-attribute:' + name.decode(), data[:m.start(1)] + b'zz' + name + data[m.end(1):]
        return 'duplicate-attribute:' + name.decode(), data[:m.end()] + b' ' + name + b'="' + val + b'"' + data[m.end():]
    tags = element_spans(data) if k in (9, 10, 11) else []
    if k in (9, 10, 11) and tags:
        st, en, tag = rng.choice(tags)
        if k == 9:
            return 'delete-element:' + tag, data[:st] + data[en:]
        if k == 10:
            return 'duplicate-element:' + tag, data[:en] + data[st:en] + data[en:]
        rest = data[:st] + data[en:]
        st2 = rng.choice(element_spans(rest) or [(0, 0, '')])[0]
        return 'move-element:' + tag, rest[:st2] + data[st:en] + rest[st2:]
    if k == 12:
        refs = [m for m in attrs if m.group(1) in (b'event-type', b'object-type', b'source-uri', b'name', b'source', b'target', b'source-concept', b'event-version', b'sequence', b'timespan-start')]
        if refs:
            m = rng.choice(refs)
            return 'undefined-reference:' + m.group(1).decode(), data[:m.start(2)] + b'undefined-thing' + data[m.end(2):]
    i = rng.randrange(n)
    return 'replace-byte', data[:i] + bytes([rng.randrange(256)]) + data[i + 1:]


def run_parser(kind, data, cuts=None, timeout=5):
    """returns dict(outcome, exception, where, delivered=[(kind, valid?)])"""
    from edxml import EDXMLPullParser, EDXMLPushParser
    from edxml.error import EDXMLError
    from edxml.event_validator import EventValidator
    delivered = []
    cls = EDXMLPullParser if kind.startswith('pull') else EDXMLPushParser
    reused = kind.endswith('-reused')

    class P(cls):
        def _parsed_ontology(self, o):
            super()._parsed_ontology(o)
            try:
                o.validate()
                ok = True
            except Exception as e:
                ok = 'ontology fails its own validation: %s' % type(e).__name__
            delivered.append(('ontology', ok))

        def _parsed_event(self, e):
            try:
                ok = bool(EventValidator(self.get_ontology()).is_valid(e))
            except Exception as ex:
                ok = 'revalidation raised %s' % type(ex).__name__
            delivered.append(('event', ok))
    res = {'outcome': 'ok', 'exception': None, 'where': None}
    old = signal.signal(signal.SIGALRM, _alarm)
    signal.alarm(timeout)
    try:
        p = P()
        if reused:
            # the same parser instance has read another (valid, smaller) document before
            if kind.startswith('pull'):
                p.parse(io.BytesIO(FIRST_DOCUMENT))
                p.close()
            else:
                p.feed(FIRST_DOCUMENT)
                p.close()
            del delivered[:]
        if kind.startswith('pull'):
            p.parse(io.BytesIO(data))
        else:
            prev = 0
            for c in cuts or [len(data)]:
                p.feed(data[prev:c])
                prev = c
            p.close()
    except Hang:
        res.update(outcome='hang')
    except EDXMLError as e:
        res.update(outcome='edxml-error', exception=type(e).__name__)
    except Exception as e:
        tb = traceback.extract_tb(e.__traceback__)
        frames = [f for f in tb if '/edxml/' in f.filename]
        f = frames[-1] if frames else tb[-1]
        res.update(outcome='foreign', exception=type(e).__name__, where='%s:%s' % (os.path.basename(f.filename), f.name), message=str(e)[:120])
    finally:
        signal.alarm(0)
        signal.signal(signal.SIGALRM, old)
    res['delivered'] = delivered
    return res


_SCHEMA = []
FIRST_DOCUMENT = G.document([OL.onto_xml(OL.ONTO(object_types=[OL.OT('o')], event_types=[OL.ET('parent', [OL.PROP('k', 'o', merge='match')])],
                                                 sources=[OL.SOURCE('/s/', **{'date-acquired': '20200101'})])),
                             G.event_xml('parent', '/s/', [('k', 'first document')])])


def reference_items(data):
    """the stage results for every child of the root, computed with the real components outside the parser;
    None when the document is not well-formed XML or has visited tags in places the skeleton model does not cover"""
    import copy
    import edxml_schema
    from edxml.event import ParsedEvent
    from edxml.ontology import Ontology
    from edxml.event_validator import EventValidator
    from edxml.error import EDXMLError
    if not _SCHEMA:
        _SCHEMA.append(etree.RelaxNG(etree.parse(edxml_schema.SCHEMA_PATH_3_0)))
    lookup = etree.ElementNamespaceClassLookup()
    lookup.get_namespace(NS)['event'] = ParsedEvent
    parser = etree.XMLParser(no_network=True, resolve_entities=False, remove_comments=True, remove_pis=True, remove_blank_text=True)
    parser.set_element_class_lookup(lookup)
    try:
        root = etree.fromstring(data, parser)
    except etree.XMLSyntaxError:
        return None
    E = '{%s}' % NS
    if root.tag != E + 'edxml':
        return None
    for d in root.iterdescendants():
        if isinstance(d.tag, str) and d.tag in (E + 'edxml', E + 'ontology', E + 'event') and d.getparent() is not root:
            return None
        if isinstance(d.tag, str) and not d.tag.startswith('{'):
            return None
    v = root.attrib.get('version')
    if v is None:
        ver = 'VMissing'
    elif len(v.split('.')) != 3:
        ver = 'VMalformed'
    else:
        try:
            ver = 'VUnsupported' if (int(v.split('.')[0]) != 3 or int(v.split('.')[1]) > 0) else 'VSupported'
        except ValueError:
            ver = 'VNonNumeric'
    items, onto = [], None
    for child in root:
        if not isinstance(child.tag, str):
            continue
        if child.tag == E + 'ontology':
            tree = copy.copy(root)
            n_complete = root.index(child) + 1
            for idx, e in enumerate(tree.findall('./*')):
                if e.tag != E + 'ontology' or idx >= n_complete:
                    tree.remove(e)
            ok = bool(_SCHEMA[0].validate(tree))
            trial = copy.deepcopy(onto) if onto is not None else Ontology()
            try:
                trial.update(child)
                pr = C('Fine')
                if ok:
                    onto = trial
            except EDXMLError:
                pr = C('Raises', C('EdxmlErr'))
            except Exception:
                pr = C('Raises', C('Foreign'))
            items.append(C('IOnt', ok, pr))
            if not ok or pr.name != 'Fine':
                break
        elif child.tag == E + 'event':
            has = 'event-type' in child.attrib and 'source-uri' in child.attrib
            known = bool(has and onto is not None and onto.get_event_type(child.attrib['event-type']) is not None
                         and onto.get_event_source(child.attrib['source-uri']) is not None)
            gate = False
            if known:
                try:
                    gate = bool(EventValidator(onto).is_valid(child))
                except Exception:
                    gate = False
            items.append(C('IEv', has, known, gate))
            if not (has and known and gate):
                break
        else:
            items.append(C('IOther'))
    return items, C(ver)


def judge(ck, name, faults, data, kind, cuts, res):
    inp = {'document': data.decode('latin-1'), 'encoding': 'latin-1 view of the bytes', 'parser': kind, 'cuts': cuts, 'seed_document': name, 'faults': faults}
    if res['outcome'] == 'hang':
        ck.oracle_failures.append({'signature': 'hang/%s' % kind, 'input': inp, 'observed': 'no result within the watchdog time'})
    elif res['outcome'] == 'foreign':
        ck.oracle_failures.append({'signature': 'foreign-exception/%s/%s' % (res['exception'], res['where']), 'input': inp,
                                   'observed': '%s parser raised %s at %s: %s' % (kind, res['exception'], res['where'], res.get('message'))})
    for what, ok in res['delivered']:
        if ok is not True:
            ck.oracle_failures.append({'signature': 'rejected-item-delivered/%s' % what, 'input': inp,
                                       'observed': 'a callback received an %s that the validation gate rejects (%s); final outcome %s' % (what, ok, res['outcome'])})
            break


def replay(path):
    obj = json.load(open(path))
    if obj.get('kind') != 'failing-input':
        print('replay names a broken obligation:', obj.get('obligation'))
        return 0
    i = obj['input']
    data = i['document'].encode('latin-1')
    res = run_parser(i['parser'], data, i.get('cuts'))
    print('observed at check time:', obj.get('observed'))
    print('now:', {k: v for k, v in res.items() if k != 'delivered'}, 'delivered:', res['delivered'])
    return 0 if res['outcome'] in ('ok', 'edxml-error') and all(ok is True for _, ok in res['delivered']) else 1


def main(argv):
    import logging
    logging.disable(logging.CRITICAL)
    if len(argv) > 1 and argv[0] == '--replay':
        return replay(argv[1])
    ck = Check(PID, ANCHORS)
    ck.prove()
    rng = ck.rng
    from translate import c15 as T1
    rows, notes, _ = T1.generate()
    for nt in notes:
        ck.obligation_failures.append(('T1:leak-sites', nt))
    ck.trusted += ['harness/translate/c15.py: extraction of raw attribute accesses / integer conversions and their enclosing try blocks (Python ast)',
                   'the stage results fed to the skeleton model (RelaxNG verdict, Ontology.update outcome, EventValidator verdict) are computed with the real components',
                   'lxml: element events arrive in document order; XMLSyntaxError is the only exception of the XML layer']
    ck.assumptions += ['the theorem about the error family assumes that the stages themselves raise only EDXML errors (the leak-site table covers attrib[..] and int(..) '
                       'in the listed functions; other sources are covered by fault injection only)',
                       'documents with visited tags outside the root (a property named event, moved elements) are outside the skeleton model',
                       'hangs are detected by a wall-clock watchdog only']
    terms, metas = [], []
    docs = seed_documents(rng, ck.budget(4, 20))
    per_doc = ck.budget(120, 1500)
    for name, data in docs:
        if name.startswith('upgrade:'):
            for kind, cuts in (('pull', None), ('push', [len(data) // 3, 2 * len(data) // 3, len(data)]), ('pull-reused', None), ('push-reused', [len(data) // 2, len(data)])):
                res = run_parser(kind, data, cuts)
                ck.cov['evaluations'] += 1
                ck.dist('upgrade-document:' + res['outcome'])
                judge(ck, name, [name], data, kind, cuts, res)
            continue
        base = run_parser('pull', data)
        if base['outcome'] != 'ok':
            ck.dist('seed-document:not-accepted')
            continue
        for kind, cuts in (('pull-reused', None), ('push-reused', [len(data) // 2, len(data)])):
            res = run_parser(kind, data, cuts)
            ck.cov['evaluations'] += 1
            ck.dist('reused-parser:' + res['outcome'])
            judge(ck, name, ['parser-reused'], data, kind, cuts, res)
        ck.dist('seed-document:accepted')
        for _ in range(per_doc):
            nf = rng.choice([1, 1, 1, 2, 3])
            cur, faults = data, []
            for _f in range(nf):
                if len(cur) < 2:
                    break
                kind, cur = mutate(rng, cur)
                faults.append(kind)
            if not cur:
                continue
            res = run_parser('pull', cur)
            ck.cov['evaluations'] += 1
            ck.dist('fault:' + faults[0].split(':')[0])
            ck.dist('pull:' + res['outcome'] + (':' + res['exception'] if res['outcome'] == 'edxml-error' else ''))
            judge(ck, name, faults, cur, 'pull', None, res)
            ref = reference_items(cur) if res['outcome'] != 'hang' else None
            if ref is not None and len(terms) < ck.budget(1500, 15000):
                kinds = [C('COnt', True) if w == 'ontology' else C('CEv', True) for w, _ in res['delivered']]
                oc = C('Done') if res['outcome'] == 'ok' else C('Raised', C('EdxmlErr' if res['outcome'] == 'edxml-error' else 'Foreign'))
                terms.append(coq((ref[0], ref[1], (kinds, oc))))
                metas.append({'seed_document': name, 'faults': faults, 'delivered': [w for w, _ in res['delivered']], 'outcome': res['outcome'], 'exception': res['exception']})
                ck.dist('skeleton-case:' + res['outcome'])
            n = len(cur)
            cuts = sorted(rng.sample(range(1, n), min(n - 1, rng.randint(1, 6)))) + [n] if n > 2 else [n]
            res2 = run_parser('push', cur, cuts)
            ck.cov['evaluations'] += 1
            ck.dist('push:' + res2['outcome'])
            judge(ck, name, faults, cur, 'push', cuts, res2)
            if (res['outcome'] in ('ok', 'edxml-error')) and res2['outcome'] in ('ok', 'edxml-error') and \
                    (res['outcome'], len(res['delivered'])) != (res2['outcome'], len(res2['delivered'])):
                ck.dist('pull-push-differ')
        # systematic single faults: every attribute occurrence deleted / retyped, every element deleted / duplicated
        if name in ('base', 'two-ontologies', 'generated-0', 'no-ontology') or ck.thorough():
            sweep = []
            for m in ATTR_RE.finditer(data):
                sweep.append(('delete-attribute:' + m.group(1).decode(), data[:m.start()] + data[m.end():]))
                sweep.append(('add-unknown-attribute', data[:m.end()] + b' zz-unknown="1"' + data[m.end():]))
                for new in (b'x', b'', b'-1', b'1.5', b'99999999999999999999', b'undefined-thing', b'3.x.0', b'.0.0', b'3..0', b'a b', b'\xc3\xa9'):
                    sweep.append(('retype-attribute:' + m.group(1).decode(), data[:m.start(2)] + new + data[m.end(2):]))
            for st, en, tag in element_spans(data):
                sweep.append(('delete-element:' + tag, data[:st] + data[en:]))
                sweep.append(('duplicate-element:' + tag, data[:en] + data[st:en] + data[en:]))
                body = data[st:en]
                if not body.endswith(b'/>'):
                    head = body[:body.index(b'>')]
                    sweep.append(('empty-element:' + tag, data[:st] + head + b'/>' + data[en:]))
            for fault, cur in sweep:
                for kind, cuts in (('pull', None), ('push', [len(cur) // 2, len(cur)])):
                    res = run_parser(kind, cur, cuts)
                    ck.cov['evaluations'] += 1
                    ck.dist('sweep:' + res['outcome'])
                    judge(ck, name, [fault], cur, kind, cuts, res)
            ck.cov['systematic_single_faults'] = ck.cov.get('systematic_single_faults', 0) + len(sweep)
        # every truncation point of a short prefix region and a stride over the rest
        for i in list(range(1, min(len(data), 400))) + list(range(400, len(data), max(1, len(data) // ck.budget(150, 1500)))):
            res = run_parser('pull', data[:i])
            ck.cov['evaluations'] += 1
            ck.dist('truncation:' + res['outcome'])
            judge(ck, name, ['truncate@%d' % i], data[:i], 'pull', None, res)
        ck.cov['distinct_nontrivial'] += per_doc
    agree = ('fun c => match c with (items, v, obs) => let r := run repaired true false items v in '
             'list_eqb cb_eqb (map (fun c => match c with COnt _ => COnt true | CEv _ => CEv true end) (fst r)) (fst obs) && outcome_eqb (snd r) (snd obs) end')
    bad, errs = run_cases(PID, IMPORTS, 'list item * version_attr * (list cb * outcome)', terms, agree, shard=400)
    for i in bad[:10]:
        ck.corr_failures.append({'case': metas[i], 'model': 'callbacks / outcome of the skeleton differ from the parser'})
    for e in errs[:3]:
        ck.corr_failures.append({'coq_error': e})
    ck.cov['traces_validated_against_impl'] = len(terms)
    ck.cov['disagreements_checked'] = len(bad)
    ck.cov['leak_sites'] = len(rows)
    ck.cov['exhaustive'] = False
    ck.cov['rule'] = ('1-3 faults per run on valid documents (base ontology with events, generated rich ontologies, repository corpus): truncation, bit flips, range deletion, '
                      'splices, inserted markup bytes, attribute deletion / retyping / renaming / duplication on every element, element deletion / duplication / moves, '
                      'undefined references; pull parser and push parser at random chunkings, all truncation points of the first 400 bytes and a stride over the rest; '
                      'watchdog; delivered items re-validated')
    return ck.finish()


if __name__ == '__main__':
    sys.exit(main(sys.argv[1:]))
