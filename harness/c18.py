"""C18 — EventCollection equivalence is a true semantic equivalence relation."""
import copy, hashlib, io, json, sys
from common.core import Check, C, coq, run_cases, Raw
from common import gen_doc as G
import mergelib as M

PID = 'C18'
ANCHORS = ['edxml/event_collection.py', 'edxml/event.py']
IMPORTS = 'From EdxmlVerif Require Import Base.Prelude Event.Merge Event.Stream Event.Collection.'
CASE_T = 'etype * list (str * list (str * Z)) * bool * list (str * mevent) * list (str * mevent) * N * N'


def agree(variant):
    return ('fun c => match c with (et, tbl, oeq, a, b, rab, rba) => '
            'N.eqb (cres_code (equiv (rank_table tbl) et %s oeq a b)) rab && '
            'N.eqb (cres_code (equiv (rank_table tbl) et %s oeq b a)) rba end' % (variant, variant))


EXCL = ('number:float:signed', 'sequence:alt')


def hkey(et, e):
    hashed = [p['name'] for p in et['props'] if p['merge'] == 'match']
    return tuple((n, tuple(sorted(e['props'].get(n, [])))) for n in hashed)


def logical(et, coll):
    """independent statement of the logical events of a collection: hash -> (props, attachment ids, parents)"""
    groups = {}
    for e in coll:
        groups.setdefault(hkey(et, e), []).append(e)
    out = {}
    for k, g in groups.items():
        props = {}
        for p in et['props']:
            n, s = p['name'], p['merge']
            allv = [v for e in g for v in e['props'].get(n, [])]
            key = M.POOLS[p['data_type']][1]
            if not allv:
                continue
            if s == 'match':
                props[n] = frozenset(g[0]['props'].get(n, []))
            elif s == 'add':
                props[n] = frozenset(allv)
            elif s == 'min':
                props[n] = frozenset([min(allv, key=key)])
            elif s == 'max':
                props[n] = frozenset([max(allv, key=key)])
        out[k] = (tuple(sorted(props.items())), g[0]['tag'], frozenset(h for e in g for h in e['parents']))
    return out


def gen_collection(rng, et):
    coll, seen = [], set()
    for gi in range(rng.choice([1, 2, 2, 3, 4])):
        g = M.gen_group(rng, et, size=rng.choice([1, 1, 2, 2, 3]))
        k = hkey(et, g[0])
        if k in seen:
            continue
        seen.add(k)
        for e in g:
            e['tag'] = gi + 1          # all instances of a logical event carry the same attachment id
        coll += g
    rng.shuffle(coll)
    return coll


def spec_merge_group(et, g):
    lg = logical(et, g)
    (props, tag, parents), = lg.values()
    return {'props': {n: sorted(v) for n, v in props}, 'parents': sorted(parents), 'tag': tag}


def mutate(rng, et, a):
    """returns (kind, b, ontology_changed)"""
    b = copy.deepcopy(a)
    kind = rng.choice(['same', 'permute', 'permute-objects', 'resolved', 'partly-resolved', 'object', 'attachment', 'parent',
                       'add-event', 'remove-event', 'duplicate', 'ontology', 'object', 'attachment', 'parent'])
    if kind == 'permute':
        rng.shuffle(b)
    elif kind == 'permute-objects':
        for e in b:
            e['props'] = {k: list(reversed(v)) for k, v in reversed(list(e['props'].items()))}
            e['parents'] = list(reversed(e['parents']))
    elif kind in ('resolved', 'partly-resolved'):
        groups = {}
        for e in b:
            groups.setdefault(hkey(et, e), []).append(e)
        b = []
        for k, g in groups.items():
            if kind == 'resolved' or rng.random() < 0.5:
                b.append(spec_merge_group(et, g))
            else:
                b += g
        rng.shuffle(b)
    elif kind == 'object':
        cands = [(e, p) for e in b for p in et['props'] if p['merge'] != 'match']
        if cands:
            e, p = rng.choice(cands)
            pool = M.POOLS[p['data_type']][0]
            e['props'][p['name']] = [rng.choice(pool)] if not p['multivalued'] else rng.sample(pool, rng.randint(1, 2))
    elif kind == 'attachment':
        e = rng.choice(b)
        if rng.random() < 0.5:
            e['tag'] = 9
        else:      # every instance of that logical event
            k = hkey(et, e)
            for x in b:
                if hkey(et, x) == k:
                    x['tag'] = 9
    elif kind == 'parent':
        rng.choice(b)['parents'] = [hashlib.sha1(b'other-parent').hexdigest()]
    elif kind == 'add-event':
        g = M.gen_group(rng, et, size=1)
        g[0]['tag'] = 7
        b.insert(rng.randint(0, len(b)), g[0])
    elif kind == 'remove-event':
        b.pop(rng.randrange(len(b)))
    elif kind == 'duplicate':
        b.insert(rng.randint(0, len(b)), copy.deepcopy(rng.choice(b)))
    return kind, b, kind == 'ontology'


def to_collection(et, coll, onto_variant=False):
    from edxml.event_collection import EventCollection
    et2 = et
    if onto_variant:
        et2 = copy.deepcopy(et)
        et2['props'][0]['description'] = 'another description'
    onto = M.load_ontology(et2)
    return EventCollection(M.make_events(et, coll, 'EDXMLEvent'), ontology=onto) if coll else EventCollection([], ontology=onto)


def touch(coll, which):
    """reading something that is not there must not make a difference: look up a missing attachment / property on the events"""
    for k, e in enumerate(coll):
        if k % 2 == which:
            try:
                e.attachments['no-such-attachment']
            except Exception:
                pass
            try:
                e.properties['no-such-property']
            except Exception:
                pass


def run_impl(et, a, b, onto_changed):
    from edxml.error import EDXMLMergeConflictError
    res = []
    for x, y, cx, cy in ((a, b, False, onto_changed), (b, a, onto_changed, False)):
        ca, cb = to_collection(et, x, cx), to_collection(et, y, cy)
        if (len(a) + len(b)) % 3 == 0:
            touch(cb, len(a) % 2)
        elif (len(a) + len(b)) % 3 == 1:
            touch(ca, len(b) % 2)
        try:
            r = 1 if ca.is_equivalent_of(cb) else 0
        except AttributeError:
            r = 2
        except EDXMLMergeConflictError:
            r = 3
        except Exception as e:
            from edxml.error import EDXMLOntologyValidationError
            if isinstance(e, EDXMLOntologyValidationError) and onto_changed:
                r = 0       # incompatible ontologies are rejected with an EDXML error: not reported equivalent
            else:
                r = 'exception:' + type(e).__name__ + ':' + str(e)[:100]
        res.append(r)
    return res


def oracle(et, a, b, onto_changed, kind, res):
    fails = []
    expected = (not onto_changed) and logical(et, a) == logical(et, b)
    sizes = max([len([1 for x in c if hkey(et, x) == hkey(et, e)]) for c in (a, b) for e in c] or [0])
    coll = 'with-collisions' if sizes > 1 else 'collision-free'
    for direction, r in zip(('a~b', 'b~a'), res):
        if r not in (0, 1):
            fails.append(('raises/%s/%s' % ('AttributeError' if r == 2 else 'MergeConflict' if r == 3 else str(r).split(':')[1], coll),
                          '%s raised (%r); expected %s' % (direction, r, expected)))
        elif bool(r) != expected:
            fails.append(('%s/%s/%s' % ('missed-difference' if r else 'equivalent-reported-different', kind, coll),
                          '%s returned %s, logical collections %s' % (direction, bool(r), 'equal' if expected else 'differ')))
    if res[0] in (0, 1) and res[1] in (0, 1) and res[0] != res[1]:
        fails.append(('asymmetric/%s/%s' % (kind, coll), 'a~b=%s b~a=%s' % (res[0], res[1])))
    return fails


def items_term(et, coll):
    gids = {}
    out = []
    for e in coll:
        k = hkey(et, e)
        gids.setdefault(k, 'g' + hashlib.sha1(repr(k).encode()).hexdigest()[:6])
        out.append((gids[k], M.ev_term(e)))
    return out


def replay(path):
    obj = json.load(open(path))
    if obj.get('kind') != 'failing-input':
        print('replay names a broken obligation:', obj.get('obligation'))
        return 0
    i = obj['input']
    res = run_impl(i['etype'], i['a'], i['b'], i['ontology_changed'])
    fails = oracle(i['etype'], i['a'], i['b'], i['ontology_changed'], i['kind'], res)
    print('a~b, b~a =', res, 'oracle failures:', fails)
    return 1 if fails else 0


def main(argv):
    if len(argv) > 1 and argv[0] == '--replay':
        return replay(argv[1])
    ck = Check(PID, ANCHORS)
    ck.trusted += ['independent statement of the logical events of a collection in the harness (per hash: match/add/min/max, parents union, attachment ids)',
                   'sticky hashes are abstracted to keys computed from (type, source, hashed objects)']
    ck.assumptions += ['event types use order-free merge strategies (match, add, min, max): with any/set the merged event legitimately depends on event order',
                       'all instances of one logical event carry the same attachment ids', 'no event-version property (no merge conflicts)']
    ck.prove()
    rng = ck.rng
    n = ck.budget(1500, 40000)
    terms, metas, seen = [], [], set()
    for i in range(n):
        et = M.gen_etype(rng, force_version=False, strategies=['match', 'match', 'add', 'min', 'max'], exclude_types=EXCL)
        if not any(p['merge'] == 'match' for p in et['props']):
            et['props'][0].update(merge='match', data_type='string:0:mc:u', optional=False, multivalued=False)
        a = gen_collection(rng, et)
        if rng.random() < 0.04:
            # collections without events: only the ontologies are left to compare
            a = []
            kind, b, oc = rng.choice([('same', [], False), ('ontology', [], True), ('add-event', [dict(M.gen_group(rng, et, size=1)[0], tag=7)], False)])
        else:
            kind, b, oc = mutate(rng, et, a)
        res = run_impl(et, a, b, oc)
        ck.cov['evaluations'] += 1
        inp = {'etype': et, 'a': a, 'b': b, 'ontology_changed': oc, 'kind': kind}
        key = json.dumps(inp, sort_keys=True)
        if key not in seen and kind != 'same':
            ck.cov['distinct_nontrivial'] += 1
        seen.add(key)
        ck.dist('mutant:' + kind)
        ck.dist('result:%s/%s' % tuple(res))
        ck.sample({'input': inp, 'observed(a~b,b~a)': res}, limit=2)
        for sig, detail in oracle(et, a, b, oc, kind, res):
            ck.oracle_failures.append({'signature': sig, 'input': inp, 'observed': detail})
        if all(r in (0, 1, 2, 3) for r in res):
            terms.append(coq((M.et_term(et), M.rank_tables(et), not oc, items_term(et, a), items_term(et, b), res[0], res[1])))
            metas.append(inp)
    # event types WITH a version property (replace strategy, genuine merge conflicts possible): the verdict - equivalent, different or a
    # merge conflict - must not depend on the order of the events; the expected verdict itself comes from the model (correspondence)
    for i in range(ck.budget(200, 4000)):
        et = M.gen_etype(rng, force_version=True, strategies=['match', 'match', 'add', 'min', 'max', 'replace', 'replace'], exclude_types=EXCL)
        if not any(p['merge'] == 'match' for p in et['props']):
            et['props'][0].update(merge='match', data_type='string:0:mc:u', optional=False, multivalued=False)
        a, seen_k = [], set()
        for gi in range(rng.choice([1, 1, 2])):
            g = M.gen_group(rng, et, size=rng.choice([2, 3, 3, 4]), allow_conflict=rng.random() < 0.6)
            if not g or hkey(et, g[0]) in seen_k:
                continue
            seen_k.add(hkey(et, g[0]))
            for e in g:
                e['tag'] = gi + 1
            a += g
        if not a:
            continue
        b = copy.deepcopy(a)
        rng.shuffle(b)
        a2 = copy.deepcopy(a)
        rng.shuffle(a2)
        if rng.random() < 0.3 and len(b) > 1:
            b.pop()
        res1, res2 = run_impl(et, a, b, False), run_impl(et, a2, b, False)
        ck.cov['evaluations'] += 2
        ck.dist('versioned:%s' % (res1[0],))
        inp = {'etype': et, 'a': a, 'b': b, 'a_reordered': a2, 'ontology_changed': False, 'kind': 'versioned'}
        bad = [r for r in res1 + res2 if r not in (0, 1, 3)]
        if bad:
            ck.oracle_failures.append({'signature': 'raises/%s/versioned' % str(bad[0]).split(':')[1 if ':' in str(bad[0]) else 0], 'input': inp, 'observed': repr((res1, res2))})
        elif res1 != res2:
            ck.oracle_failures.append({'signature': 'order-dependent-verdict/versioned', 'input': inp,
                                       'observed': 'a~b, b~a = %r; with the events of a reordered: %r (0 different, 1 equivalent, 3 merge conflict)' % (res1, res2)})
        elif res1[0] != res1[1]:
            ck.oracle_failures.append({'signature': 'asymmetric/versioned', 'input': inp, 'observed': 'a~b=%s b~a=%s' % tuple(res1)})
        else:
            terms.append(coq((M.et_term(et), M.rank_tables(et), True, items_term(et, a), items_term(et, b), res1[0], res1[1])))
            metas.append(inp)
    # histories: compare, edit an event of one collection in place (a hashed object changes), compare again
    for i in range(ck.budget(150, 3000)):
        et = M.gen_etype(rng, force_version=False, strategies=['match', 'match', 'add', 'min', 'max'], exclude_types=EXCL)
        if not any(p['merge'] == 'match' for p in et['props']):
            et['props'][0].update(merge='match', data_type='string:0:mc:u', optional=False, multivalued=False)
        a = gen_collection(rng, et)
        b = copy.deepcopy(a)
        rng.shuffle(b)
        ca, cb = to_collection(et, a), to_collection(et, b)
        inp = {'etype': et, 'a': a, 'b': b, 'kind': 'history'}
        try:
            r1 = (bool(ca.is_equivalent_of(cb)), bool(cb.is_equivalent_of(ca)))
            hashed = [p for p in et['props'] if p['merge'] == 'match']
            idx = rng.randrange(len(a))
            p = rng.choice(hashed)
            pool = [v for v in M.POOLS[p['data_type']][0] if v not in a[idx]['props'].get(p['name'], [])]
            if not pool:
                continue
            newv = rng.choice(pool)
            a2 = copy.deepcopy(a)
            a2[idx]['props'][p['name']] = [newv]
            a2[idx]['tag'] = 8
            if any(hkey(et, x) == hkey(et, a2[idx]) for k, x in enumerate(a2) if k != idx):
                continue          # would join another logical event (whose instances carry other attachment ids)
            ev = ca[idx]
            ev.properties[p['name']] = [newv]
            ev.set_attachment('att', {'i8': 'e8'})
            inp['edit'] = {'event': idx, 'property': p['name'], 'value': newv}
            r2 = (bool(ca.is_equivalent_of(cb)), bool(cb.is_equivalent_of(ca)))
            r3 = bool(ca.is_equivalent_of(to_collection(et, a2)))
        except Exception as e:
            ck.oracle_failures.append({'signature': 'history/raises/' + type(e).__name__, 'input': inp, 'observed': repr(e)[:200]})
            continue
        ck.cov['evaluations'] += 5
        ck.dist('history')
        exp2 = logical(et, a2) == logical(et, b)
        if r1 != (True, True):
            ck.oracle_failures.append({'signature': 'equivalent-reported-different/permute/history', 'input': inp, 'observed': 'before the edit: %r' % (r1,)})
        elif r2 != (exp2, exp2):
            ck.oracle_failures.append({'signature': 'history/stale-after-in-place-edit', 'input': inp,
                                       'observed': 'after the edit a~b, b~a = %r, logical collections %s' % (r2, 'equal' if exp2 else 'differ')})
        elif not r3:
            ck.oracle_failures.append({'signature': 'history/not-equivalent-to-a-copy-of-itself', 'input': inp, 'observed': 'edited collection vs a new collection with the same content: False'})
    variant = 'Fixed'
    bad, errs = run_cases(PID, IMPORTS, CASE_T, terms, agree('Fixed'), shard=150, tag='fixed')
    if bad or errs:
        bad_p, errs_p = run_cases(PID, IMPORTS, CASE_T, terms, agree('Pinned'), shard=150, tag='pinned')
        if not bad_p and not errs_p:
            variant = 'Pinned (length test, raise on collision groups, one-sided comparison)'
        else:
            variant = 'none'
            for i in bad[:10]:
                ck.corr_failures.append({'case': metas[i], 'model': 'verdict differs (Fixed%s)' % (' and Pinned' if i in bad_p else '')})
            for e in (errs + errs_p)[:3]:
                ck.corr_failures.append({'coq_error': e})
    ck.cov['variant_matched'] = variant
    ck.cov['traces_validated_against_impl'] = len(terms)
    ck.cov['disagreements_checked'] = len(bad)
    ck.cov['rule'] = ('collections of 1-4 logical events with 1-3 instances each; second collection = same / permuted / objects permuted / '
                      '(partly) collision-resolved / one object, attachment id or parent changed / event added, removed, duplicated / '
                      'ontology edited; both argument orders; expected verdict from the generator\'s logical events; non-trivial = not "same"')
    return ck.finish()


if __name__ == '__main__':
    sys.exit(main(sys.argv[1:]))
