"""C19 — streaming parse keeps memory bounded (elements retained under the root)."""
import io, json, os, sys, tempfile
from common.core import Check, C, coq, run_cases, Raw
from common import gen_doc as G

PID = 'C19'
ANCHORS = ['edxml/parser.py']
IMPORTS = 'From EdxmlVerif Require Import Base.Prelude Parse.Tree.'
ORACLE_CONST = 8     # "a small constant": the model proves 3; the oracle only asserts boundedness


def gen_kinds(rng, n, pattern):
    """list of booleans, True = ontology element"""
    if pattern == 'events':
        ks = [True] + [False] * (n - 1)
    elif pattern == 'updates':
        ks = [True] * n
    elif pattern == 'periodic':
        k = rng.randint(2, 7)
        ks = [True] + [(i % k == 0) for i in range(1, n)]
    elif pattern == 'two-initial':
        ks = [True, True] + [False] * max(0, n - 2)
    else:
        p = rng.choice([0.1, 0.3, 0.5, 0.8])
        ks = [True] + [rng.random() < p for _ in range(n - 1)]
        if rng.random() < 0.05:
            ks[0] = False      # event before any ontology: error path
    return ks[:n]


def doc_children(kinds):
    ont = G.ontology_xml([('o', 'string:0:mc:u')], [{'name': 'ta', 'properties': [{'name': 'p', 'object_type': 'o'}]},
                                                    {'name': 'tb', 'properties': [{'name': 'p', 'object_type': 'o'}]}], ['/s/'])
    out, i = [], 0
    for k in kinds:
        if k:
            out.append(ont)
        else:
            # two event types, the first one rare (every 97th event): parsers with handlers for only one of them still release every event
            out.append(G.event_xml('tb' if i % 97 else 'ta', '/s/', [('p', 'v%d' % i)]))
            i += 1
    return out


def run_impl(kinds, mode, chunk=0):
    from edxml import EDXMLPullParser, EDXMLPushParser
    from edxml.error import EDXMLValidationError
    rec = {'retained': [], 'positions': [], 'root': None}
    custom = mode.endswith('+custom-event-class')
    partial = mode.endswith('+handlers-for-one-type-no-validation')
    mode = mode.replace('+custom-event-class', '').replace('+handlers-for-one-type-no-validation', '')
    base = EDXMLPullParser if mode in ('pull', 'pullfile') else EDXMLPushParser

    def seen_event(e):
        parent = e.getparent()
        rec['root'] = parent
        rec['retained'].append(len(parent))
        rec['positions'].append(parent.index(e) + 1)

    class P(base):
        def _parsed_ontology(self, o):
            super()._parsed_ontology(o)
            root = self._EDXMLParserBase__root_element
            rec['root'] = root
            rec['retained'].append(len(root))
    if not partial:
        P._parsed_event = lambda self, e: seen_event(e)
    children = doc_children(kinds)
    data = G.document(children)
    p = P(validate=False) if partial else P()
    if partial:
        p.set_event_type_handler(['ta'], seen_event)       # events of type tb reach no handler at all
    if custom:
        from edxml.event import ParsedEvent

        class MyEvent(ParsedEvent):
            pass
        p.set_custom_event_class(MyEvent)
    ok = True
    try:
        if mode == 'pull':
            p.parse(io.BytesIO(data))
        elif mode == 'pullfile':
            with tempfile.NamedTemporaryFile(dir='/var/tmp', suffix='.edxml') as f:
                f.write(data)
                f.flush()
                p.parse(f.name)
        elif mode == 'pushb':
            pos = 0
            for ch in children:
                end = data.index(ch.encode(), pos) + len(ch.encode())
                p.feed(data[pos:end])
                pos = end
            p.feed(data[pos:])
        elif mode == 'pushall':
            p.feed(data)
        else:
            for i in range(0, len(data), chunk):
                p.feed(data[i:i + chunk])
    except EDXMLValidationError:
        ok = False
    final = len(rec['root']) if rec['root'] is not None else 0
    return {'retained': rec['retained'], 'positions': rec['positions'], 'final': final, 'ok': ok}


def oracle(kinds, mode, res, pattern):
    fails = []
    worst = max(res['positions'] or [0])
    if worst > ORACLE_CONST:
        i = next(k for k, v in enumerate(res['positions']) if v > ORACLE_CONST)
        fails.append(('growth/delivered-elements-retained/' + pattern,
                      'event #%d delivered at child position %d (> %d): %d already delivered elements are still in the tree'
                      % (i, res['positions'][i], ORACLE_CONST, res['positions'][i] - 1)))
    if mode == 'pushb' and res['retained'] and max(res['retained']) > ORACLE_CONST:
        fails.append(('growth/retained-at-callback/' + pattern,
                      'len(root)=%d inside a callback with nothing undelivered' % max(res['retained'])))
    if res['ok'] and res['final'] > ORACLE_CONST:
        fails.append(('growth/final/' + pattern, 'len(root)=%d after the last callback' % res['final']))
    return fails


CASE_T = 'bool * list bool * (list N * N * bool)'
AGREE = ('fun c => match c with (alt, doc, out) => '
         'result_eqb (if alt then run_alternate Code doc else run_positions Code doc) out end')


def xml_mediator_growth(n, junk, how):
    """records <a> with clutter in between through XmlTranscoderMediator; the clutter is associated with the NullTranscoder either element by
    element ('exact') or through the element that contains everything ('container'); returns the largest number of children of <records>
    seen while a record is transcoded"""
    from edxml.transcode.xml import XmlTranscoderMediator, XmlTranscoder
    from edxml.transcode import NullTranscoder
    seen = []

    class R(XmlTranscoder):
        TYPES = ['rec.x']
        TYPE_MAP = {'.': 'rec.x'}
        TYPE_PROPERTIES = {'rec.x': {'p1': 'ot-s'}}
        PROPERTY_MAP = {'rec.x': {'p1': 'p1'}}

        def create_object_types(self, ontology):
            ontology.create_object_type('ot-s')

        def generate(self, element, record_selector, **kwargs):
            seen.append(element.getparent().index(element))       # delivered siblings still in the tree (read-ahead does not count)
            yield from super().generate(element, record_selector, **kwargs)
    parts = [b'<root><records>']
    for i in range(n):
        parts.append(b'<a><p1>v%d</p1></a>' % (i % 1000))
        parts.append(b'<x><y>junk</y></x><z/>' * junk)
    parts.append(b'</records></root>')
    out = io.BytesIO()
    with XmlTranscoderMediator(out) as m:
        m.register('/root/records/a', R())
        if how == 'exact':
            m.register('/root/records/x', NullTranscoder())
            m.register('/root/records/z', NullTranscoder())
        else:
            m.register('/root/records', NullTranscoder())
        m.add_event_source('/s/')
        m.set_event_source('/s/')
        m.parse(io.BytesIO(b''.join(parts)))
    return max(seen or [0]), len(seen)


def replay(path):
    obj = json.load(open(path))
    if obj.get('kind') != 'failing-input':
        print('replay names a broken obligation:', obj.get('obligation'))
        return 0
    i = obj['input']
    kinds = gen_kinds(__import__('random').Random(i['kinds_seed']), i['n'], i['pattern']) if 'kinds_seed' in i else i['kinds']
    res = run_impl(kinds, i['mode'], i.get('chunk', 0))
    fails = oracle(kinds, i['mode'], res, i['pattern'])
    print('mode', i['mode'], 'children', len(kinds), 'max position', max(res['positions'] or [0]), 'final', res['final'])
    print('oracle failures:', fails)
    return 1 if fails else 0


def main(argv):
    if len(argv) > 1 and argv[0] == '--replay':
        return replay(argv[1])
    ck = Check(PID, ANCHORS)
    ck.trusted += ['lxml/libxml2: children are appended to the root when their start tag is received, end events are delivered in document order (the Recv/Deliver schedule of the model)']
    ck.assumptions += ['the statement proved is about elements retained under the root (as the property words it), not process memory',
                       'foreign top-level elements are outside the quantifier (events and ontology updates)',
                       'oracle constant %d; the model proves 3' % ORACLE_CONST]
    ck.prove()
    rng = ck.rng
    plan = []
    nsmall = ck.budget(120, 1500)
    for _ in range(nsmall):
        plan.append((rng.randint(1, 40), rng.choice(['events', 'updates', 'periodic', 'two-initial', 'random', 'random', 'random'])))
    big = ck.budget(3000, 15000)
    for pat in (['events', 'periodic', 'random'] if not ck.thorough() else
                ['events', 'periodic', 'random', 'updates', 'two-initial', 'random', 'periodic', 'random', 'events', 'periodic']):
        plan.append((big if pat != 'updates' else big // 10, pat))
    terms, meta = [], []
    seen = set()
    growth_seen = False
    for n, pat in plan:
        kinds = gen_kinds(rng, n, pat)
        modes = ['pushb', 'pull', 'pushall', 'push%d' % rng.choice([1, 7, 37, 200])]
        if n > 1000:
            modes = ['pushb', 'pullfile', 'push%d' % rng.choice([37, 61, 4096])]
        modes += [rng.choice(['pull', 'pushb', 'pushall']) + '+custom-event-class', rng.choice(['pull', 'pushb', 'pushall']) + '+handlers-for-one-type-no-validation']
        for mode in modes:
            chunk = int(mode[4:]) if mode.startswith('push') and mode[4:].isdigit() else 0
            m = 'chunk' if chunk else mode
            if growth_seen and n > 200:
                # a tree that is not released makes the parser itself quadratic: one replay per kind of violation is enough
                ck.dist('skipped-after-a-growth-violation')
                continue
            try:
                res = run_impl(kinds, m, chunk)
            except Exception as e:
                ck.oracle_failures.append({'signature': 'foreign-exception/' + type(e).__name__,
                                           'input': {'kinds': kinds if n <= 60 else None, 'n': n, 'pattern': pat, 'mode': m, 'chunk': chunk},
                                           'observed': repr(e)})
                continue
            ck.cov['evaluations'] += 1
            ck.dist('mode:' + mode if not chunk else 'mode:push-chunked')
            ck.dist('pattern:' + pat)
            ck.dist('children:' + ('>1000' if n > 1000 else '<=40'))
            key = (tuple(kinds), m, chunk)
            if key not in seen and sum(1 for k in kinds if not k) >= 3:
                ck.cov['distinct_nontrivial'] += 1
            seen.add(key)
            if n <= 12:
                ck.sample({'kinds(True=ontology)': kinds, 'mode': mode, 'observed': res})
            for sig, detail in oracle(kinds, m, res, pat):
                growth_seen = True
                ck.oracle_failures.append({'signature': sig, 'input': {'kinds': kinds if n <= 200 else kinds[:200], 'n': n, 'pattern': pat,
                                                                      'mode': m, 'chunk': chunk}, 'observed': detail,
                                           'expected': 'retained - undelivered <= small constant'})
            if '+handlers-for-one-type' in m:
                continue          # only every other event is observed: judged by the oracle, not fed to the bookkeeping model
            if n > 4000 and mode != modes[0]:
                continue          # very long streams: one feed mode per stream goes to the model (term size), all are judged by the oracle
            alt = m.startswith('pushb')
            out = (res['retained'] if alt else res['positions'], res['final'], res['ok'])
            terms.append(coq((alt, kinds, out)))
            meta.append({'n': n, 'pattern': pat, 'mode': m, 'chunk': chunk, 'impl': {'max': max(out[0] or [0]), 'final': res['final'], 'ok': res['ok']},
                         'kinds': kinds if n <= 60 else None})
    # the XML transcoder mediator: transcoded records and clutter associated with the NullTranscoder are released as the input is read
    for how in ('exact', 'container'):
        for junk in (1, 3):
            nrec = ck.budget(600, 6000)
            try:
                worst, nseen = xml_mediator_growth(nrec, junk, how)
            except Exception as e:
                ck.oracle_failures.append({'signature': 'xml-mediator/raises/' + type(e).__name__, 'input': {'records': nrec, 'junk': junk, 'null_transcoder': how},
                                           'observed': repr(e)[:200]})
                continue
            ck.cov['evaluations'] += 1
            ck.dist('xml-mediator:' + how)
            bound = 1 + 2 * junk + 3          # the previously transcoded record, the clutter between the two records, slack
            if nseen != nrec or worst > bound:
                ck.oracle_failures.append({'signature': 'growth/xml-mediator-input-tree/' + how, 'input': {'records': nrec, 'junk': junk, 'null_transcoder': how},
                                           'observed': '%d records transcoded; up to %d delivered siblings still under <records> while transcoding (bound %d)' % (nseen, worst, bound)})
    ck.cov['rule'] = ('child-kind sequences (patterns events/updates/periodic/two-initial/random, 1-40 children and %d-children streams) x '
                      'feed modes (child-boundary push, pull, push-all, chunked push 1/7/37/200/4096 bytes, pull from a file); '
                      'non-trivial = at least 3 events; distinct by (kinds, mode, chunk)' % big)
    bad, errs = run_cases(PID, IMPORTS, CASE_T, terms, AGREE, shard=60)
    ck.cov['traces_validated_against_impl'] = len(terms)
    ck.cov['disagreements_checked'] = len(bad)
    for i in bad[:10]:
        ck.corr_failures.append(dict(meta[i], model='differs'))
    for e in errs[:3]:
        ck.corr_failures.append({'coq_error': e})
    return ck.finish()


if __name__ == '__main__':
    sys.exit(main(sys.argv[1:]))
