"""C12 — ontology change tracking never misses a change."""
import datetime, inspect, json, sys
from lxml import etree
from common.core import Check, C, coq, run_cases, Raw
import ontolib as OL
from translate import c12 as T1

PID = 'C12'
ANCHORS = ['edxml/ontology/ontology.py', 'edxml/ontology/event_type.py', 'edxml/ontology/event_property.py',
           'edxml/ontology/event_property_concept.py', 'edxml/ontology/event_property_relation.py', 'edxml/ontology/event_type_parent.py',
           'edxml/ontology/event_type_attachment.py', 'edxml/ontology/object_type.py', 'edxml/ontology/concept.py',
           'edxml/ontology/event_source.py', 'edxml/event_validator.py']
SKIP_PREFIX = ('get_', 'is_', 'generate', 'validate', 'evaluate', 'normalize', 'merge_events', 'keys', 'values', 'items')
SKIP_NAMES = {'get', 'register_brick', 'create_from_xml'}
# operations that take an element instance of ANOTHER ontology and store it (adoption by reference, see C11)
ADOPTING = {'update', 'add_property', 'add_relation', 'add_attachment', 'set_parent', '__setitem__', 'setdefault', 'add_associated_concept'}


def fresh():
    O = OL.load_element(OL.base_ontology())
    O.create_event_type('empty')        # an event type without properties is a mapping of length 0 (falsy)
    return O


def newer():
    """a second ontology holding valid upgrades of everything + additions"""
    E = {e[1]: e for e in OL.edit_catalogue()}
    o = OL.apply_edits(OL.base_ontology(), [E['o.description'], E['c.description'], E['/s/.descriptionanother source'], E['ta.description'],
                                            E['ta.p.description'], E['ta.q.c.confidence'], E['ta.inter.predicate=knows'],
                                            E['ta.doc.description=the doc'], E['ta.parent.parent-description'], E['ta.+optional-property'],
                                            E['ta.+relation'], E['ta.+attachment']], 2)
    o['object-types'].append(OL.OT('zz', 'number:int:signed'))
    return OL.load_element(o)


def targets(O):
    ta = O.get_event_type('ta')
    return {'Ontology': O, 'ObjectType': O.get_object_type('o'), 'ObjectType#n': O.get_object_type('n'), 'Concept': O.get_concept('c'),
            'EventSource': O.get_event_source('/s/'), 'EventType': ta, 'EventProperty': ta['p'], 'EventProperty#q': ta['q'],
            'PropertyConcept': ta['q'].get_concept_associations()['c'],
            'PropertyRelation': ta.get_property_relations()['ta:inter:p,q'], 'EventTypeParent': ta.get_parent(),
            'EventTypeAttachment': ta.get_attachments()['doc']}


def curated():
    """(class, method) -> list of (target key, args builder(O, N) -> tuple)"""
    from edxml.ontology import DataType
    t = lambda key, f: (key, f)
    A = {}

    def add(cls, m, f, key=None):
        A.setdefault((cls, m), []).append((key or cls, f))
    ta = lambda O: O.get_event_type('ta')
    nta = lambda N: N.get_event_type('ta')
    add('Ontology', 'clear', lambda O, N: ())
    add('Ontology', 'create_concept', lambda O, N: ('newc',))
    add('Ontology', 'create_event_source', lambda O, N: ('/new/',))
    add('Ontology', 'create_event_type', lambda O, N: ('newt',))
    add('Ontology', 'create_object_type', lambda O, N: ('newo',))
    add('Ontology', 'delete_concept', lambda O, N: ('c.x',))
    add('Ontology', 'delete_event_source', lambda O, N: ('/s/',))
    add('Ontology', 'delete_event_type', lambda O, N: ('parent',))
    add('Ontology', 'delete_event_type', lambda O, N: ('empty',))
    add('Ontology', 'delete_object_type', lambda O, N: ('s',))
    add('Ontology', 'update', lambda O, N: (N,))
    add('ObjectType', 'compress', lambda O, N: ())
    add('ObjectType', 'fuzzy_match_head', lambda O, N: (3,))
    add('ObjectType', 'fuzzy_match_phonetic', lambda O, N: ())
    add('ObjectType', 'fuzzy_match_substring', lambda O, N: ('a.*',))
    add('ObjectType', 'fuzzy_match_tail', lambda O, N: (3,))
    add('ObjectType', 'set_data_type', lambda O, N: (DataType.string(10),))
    add('ObjectType', 'set_description', lambda O, N: ('changed',))
    add('ObjectType', 'set_display_name', lambda O, N: ('x', 'xs'))
    add('ObjectType', 'set_fuzzy_matching_attribute', lambda O, N: ('phonetic',))
    add('ObjectType', 'set_prefix_radix', lambda O, N: (2,), 'ObjectType#n')
    add('ObjectType', 'set_regex_hard', lambda O, N: ('[a-z]',))
    add('ObjectType', 'set_regex_soft', lambda O, N: ('[a-z]',))
    add('ObjectType', 'set_unit', lambda O, N: ('meter', 'm'), 'ObjectType#n')
    add('ObjectType', 'set_version', lambda O, N: (5,))
    add('ObjectType', 'set_xref', lambda O, N: ('http://x/',))
    add('ObjectType', 'update', lambda O, N: (N.get_object_type('o'),))
    add('ObjectType', 'upgrade', lambda O, N: ())
    add('Concept', 'set_description', lambda O, N: ('changed',))
    add('Concept', 'set_display_name', lambda O, N: ('x', 'xs'))
    add('Concept', 'set_version', lambda O, N: (5,))
    add('Concept', 'update', lambda O, N: (N.get_concept('c'),))
    add('Concept', 'upgrade', lambda O, N: ())
    add('EventSource', 'set_acquisition_date', lambda O, N: (datetime.datetime(2021, 5, 5),))
    add('EventSource', 'set_acquisition_date_string', lambda O, N: ('20210505',))
    add('EventSource', 'set_description', lambda O, N: ('changed',))
    add('EventSource', 'set_version', lambda O, N: (5,))
    add('EventSource', 'update', lambda O, N: (N.get_event_source('/s/'),))
    add('EventType', '__delitem__', lambda O, N: ('r',))
    add('EventType', '__setitem__', lambda O, N: ('z', nta(N)['z']))
    add('EventType', 'add_attachment', lambda O, N: (nta(N).get_attachments()['doc2'],))
    add('EventType', 'add_property', lambda O, N: (nta(N)['z'],))
    add('EventType', 'add_relation', lambda O, N: (nta(N).get_property_relations()['ta:other:q,r'],))
    add('EventType', 'clear', lambda O, N: ())
    add('EventType', 'create_attachment', lambda O, N: ('a2',))
    add('EventType', 'create_property', lambda O, N: ('np', 'o'))
    add('EventType', 'create_relation', lambda O, N: ('other', 'q', 'r', '[[q]] x [[r]]', 'x'))
    add('EventType', 'make_child', lambda O, N: ('sib', O.get_event_type('parent').make_parent('par', ta(O))))
    add('EventType', 'make_parent', lambda O, N: ('par', O.get_event_type('parent')))
    add('EventType', 'pop', lambda O, N: ('r',))
    add('EventType', 'popitem', lambda O, N: ())
    add('EventType', 'remove_property', lambda O, N: ('r',))
    add('EventType', 'set_description', lambda O, N: ('changed',))
    add('EventType', 'set_display_name', lambda O, N: ('x', 'xs'))
    add('EventType', 'set_name', lambda O, N: ('tnew',))
    add('EventType', 'set_parent', lambda O, N: (nta(N).get_parent(),))
    add('EventType', 'set_sequence_property_name', lambda O, N: ('p',))
    add('EventType', 'set_story_template', lambda O, N: ('story [[p]]',))
    add('EventType', 'set_summary_template', lambda O, N: ('summary [[p]]',))
    add('EventType', 'set_timespan_property_name_end', lambda O, N: ('p',))
    add('EventType', 'set_timespan_property_name_start', lambda O, N: ('p',))
    add('EventType', 'set_version', lambda O, N: (5,))
    add('EventType', 'set_version_property_name', lambda O, N: ('p',))
    add('EventType', 'setdefault', lambda O, N: ('z', nta(N)['z']))
    add('EventType', 'update', lambda O, N: (nta(N),))
    pcN = lambda N: nta(N)['q'].get_concept_associations()['c']
    add('EventProperty', 'add_associated_concept', lambda O, N: (pcN(N),))
    add('EventProperty', 'hint_similar', lambda O, N: ('hint',))
    add('EventProperty', 'identifies', lambda O, N: ('c', 3))
    add('EventProperty', 'make_hashed', lambda O, N: (), 'EventProperty#q')
    add('EventProperty', 'make_mandatory', lambda O, N: (), 'EventProperty#q')
    add('EventProperty', 'make_multivalued', lambda O, N: ())
    add('EventProperty', 'make_optional', lambda O, N: ())
    add('EventProperty', 'make_single_valued', lambda O, N: (), 'EventProperty#q')
    for m in ('merge_add', 'merge_any', 'merge_max', 'merge_min', 'merge_replace', 'merge_set'):
        add('EventProperty', m, lambda O, N: ())
    for m in ('relate_container', 'relate_description', 'relate_name', 'relate_original'):
        add('EventProperty', m, lambda O, N: ('r',))
    add('EventProperty', 'relate_inter', lambda O, N: ('knows', 'r', 'c.x', 'c'))
    add('EventProperty', 'relate_intra', lambda O, N: ('knows', 'r', 'c.x', 'c'))
    add('EventProperty', 'relate_to', lambda O, N: ('knows', 'r'))
    add('EventProperty', 'set_confidence', lambda O, N: (3,))
    add('EventProperty', 'set_description', lambda O, N: ('changed',))
    add('EventProperty', 'set_merge_strategy', lambda O, N: ('add',))
    add('EventProperty', 'set_multi_valued', lambda O, N: (True,))
    add('EventProperty', 'set_optional', lambda O, N: (True,))
    add('EventProperty', 'update', lambda O, N: (nta(N)['p'],))
    add('PropertyConcept', 'set_attribute', lambda O, N: ('ext', 'e', 'es'))
    add('PropertyConcept', 'set_concept_naming_priority', lambda O, N: (5,))
    add('PropertyConcept', 'set_confidence', lambda O, N: (2,))
    add('PropertyConcept', 'update', lambda O, N: (pcN(N),))
    add('PropertyRelation', 'because', lambda O, N: ('[[p]] because [[q]]',))
    add('PropertyRelation', 'reversed', lambda O, N: ())
    add('PropertyRelation', 'set_confidence', lambda O, N: (3,))
    add('PropertyRelation', 'set_description', lambda O, N: ('[[p]] d [[q]]',))
    add('PropertyRelation', 'set_predicate', lambda O, N: ('pred',))
    add('PropertyRelation', 'update', lambda O, N: (nta(N).get_property_relations()['ta:inter:p,q'],))
    add('EventTypeParent', 'map', lambda O, N: ('q', 'k'))
    add('EventTypeParent', 'set_parent_description', lambda O, N: ('owned by',))
    add('EventTypeParent', 'set_siblings_description', lambda O, N: ('next to',))
    add('EventTypeParent', 'update', lambda O, N: (nta(N).get_parent(),))
    add('EventTypeAttachment', 'set_description', lambda O, N: ('changed',))
    add('EventTypeAttachment', 'set_display_name', lambda O, N: ('x', 'xs'))
    add('EventTypeAttachment', 'set_encoding', lambda O, N: ('base64',))
    add('EventTypeAttachment', 'set_encoding_base64', lambda O, N: ())
    add('EventTypeAttachment', 'set_encoding_unicode', lambda O, N: ())
    add('EventTypeAttachment', 'set_media_type', lambda O, N: ('text/html',))
    add('EventTypeAttachment', 'update', lambda O, N: (nta(N).get_attachments()['doc'],))
    return A


def public_mutators():
    import edxml.ontology as ON
    out = []
    for cls in [ON.Ontology, ON.ObjectType, ON.Concept, ON.EventSource, ON.EventType, ON.EventProperty, ON.PropertyConcept,
                ON.PropertyRelation, ON.EventTypeParent, ON.EventTypeAttachment]:
        for n, f in inspect.getmembers(cls, predicate=inspect.isfunction):
            if n.startswith('_') and n not in ('__setitem__', '__delitem__'):
                continue
            if n.startswith(SKIP_PREFIX) or n in SKIP_NAMES:
                continue
            out.append((cls.__name__, n))
    return out


def ser(O):
    return etree.tostring(O.generate_xml())


def call_once(cls, m, key, argf, context='own'):
    """returns (changed, v0, v1, raised, detail)"""
    O, N = fresh(), newer()
    if context == 'adopted':
        # the target element is one that O adopted from another ontology
        host = __import__('edxml.ontology', fromlist=['Ontology']).Ontology()
        host.update(O)
        O = host
    obj = targets(O)[key]
    before, v0 = ser(O), O.get_version()
    raised = None
    try:
        args = argf(O, N)
        getattr(obj, m)(*args)
    except Exception as e:
        raised = type(e).__name__
    try:
        after = ser(O)
    except Exception as e:
        after = b'<unserialisable: ' + type(e).__name__.encode() + b'>'
    return after != before, v0, O.get_version(), raised


def replay(path):
    obj = json.load(open(path))
    if obj.get('kind') != 'failing-input':
        print('replay names a broken obligation:', obj.get('obligation'))
        return 0
    i = obj['input']
    A = curated()
    bad = 0
    for key, argf in A.get((i['class'], i['method']), []):
        changed, v0, v1, raised = call_once(i['class'], i['method'], key, argf, i.get('context', 'own'))
        print(i['class'], i['method'], 'changed=%s counter %d -> %d raised=%s' % (changed, v0, v1, raised))
        bad |= changed and not v1 > v0
    return 1 if bad else 0


def main(argv):
    if len(argv) > 1 and argv[0] == '--replay':
        return replay(argv[1])
    ck = Check(PID, ANCHORS)
    rows, notes, changed_gen = T1.generate()
    ck.notes += notes
    ck.cov['t1_table_rows'] = len(rows)
    ck.cov['t1_writes_without_notify'] = ['%s.%s' % (r[0], r[1]) for r in rows if (r[2] and not r[3]) or r[5]]
    ck.trusted += ['T1 translator harness/translate/c12.py (static classification of every method: writes content directly / calls the callback)',
                   'the curated argument table of harness/c12.py (fail-closed: a public mutator without arguments is a broken obligation)',
                   'ownership assumption of the theorem: what an ontology serialises depends only on elements whose owner chain ends in it '
                   '(violated by adoption by reference, see C11 known findings)']
    ck.assumptions += ['Ontology.clear() resetting the counter is pinned by tests/ontology/test_ontology.py::test_ontology_versioning (known finding)']
    ck.prove()
    A = curated()
    muts = public_mutators()
    seen_sig = set()
    for cls, m in muts:
        if (cls, m) not in A:
            ck.obligation_failures.append(('uncurated-mutator', '%s.%s is a public mutator without curated arguments' % (cls, m)))
            continue
        for key, argf in A[(cls, m)]:
            for context in ('own', 'adopted'):
                try:
                    changed, v0, v1, raised = call_once(cls, m, key, argf, context)
                except Exception as e:
                    ck.oracle_failures.append({'signature': 'harness-exception/%s.%s' % (cls, m), 'input': {'class': cls, 'method': m, 'context': context},
                                               'observed': repr(e)})
                    continue
                ck.cov['evaluations'] += 1
                ck.dist('context:' + context)
                ck.dist('changed' if changed else ('raised' if raised else 'no-change'))
                if changed:
                    ck.cov['distinct_nontrivial'] += 1
                if changed and not v1 > v0:
                    if context == 'adopted':
                        sig = 'adopted-element-notifies-other-ontology' if not (cls == 'Ontology' and m == 'clear') else 'Ontology.clear/resets-counter'
                    else:
                        sig = '%s.%s/%s' % (cls, m, 'resets-counter' if v1 < v0 else 'no-counter-increase')
                    ck.oracle_failures.append({'signature': sig, 'input': {'class': cls, 'method': m, 'context': context},
                                               'observed': 'serialisation changed, counter %d -> %d (raised: %s)' % (v0, v1, raised)})
                if len(ck.cov['samples']) < 5 and changed:
                    ck.sample({'call': '%s.%s' % (cls, m), 'context': context, 'counter': [v0, v1], 'raised': raised})
    ck.cov['mutators'] = len(muts)
    # histories: random sequences of mutators on one ontology, invariant checked after every step
    rng = ck.rng
    nseq = ck.budget(60, 3000)
    keys = [(cls, m) for cls, m in muts if (cls, m) in A and (cls, m) != ('Ontology', 'clear')]
    for it in range(nseq):
        O, N = fresh(), newer()
        hist = []
        for step in range(rng.randint(2, 10)):
            cls, m = rng.choice(keys)
            key, argf = rng.choice(A[(cls, m)])
            hist.append('%s.%s' % (cls, m))
            try:
                obj = targets(O)[key]
            except Exception:
                break
            before, v0 = ser(O), O.get_version()
            try:
                getattr(obj, m)(*argf(O, N))
            except Exception:
                pass
            try:
                after = ser(O)
            except Exception:
                break
            ck.cov['evaluations'] += 1
            if after != before and not O.get_version() > v0:
                adopted = any(h.split('.')[1] in ADOPTING for h in hist[:-1])
                ck.oracle_failures.append({'signature': 'adopted-element-notifies-other-ontology' if adopted else '%s.%s/in-history' % (cls, m),
                                           'input': {'class': cls, 'method': m, 'history': hist},
                                           'observed': 'counter %d -> %d' % (v0, O.get_version())})
        ck.dist('history-length:%d' % len(hist))
    # systematic: for every ordered pair (a, b) of mutators of one class the history a; b; a
    by_class = {}
    for (cls, m), entries in A.items():
        for key, argf in entries:
            by_class.setdefault(cls, []).append((m, key, argf))
    npairs = 0
    for cls, entries in by_class.items():
        for (m1, k1, f1) in entries:
            for (m2, k2, f2) in entries:
                if (cls, m1) == ('Ontology', 'clear') or (cls, m2) == ('Ontology', 'clear'):
                    continue
                O, N = fresh(), newer()
                hist = []
                for (m, key, argf) in ((m1, k1, f1), (m2, k2, f2), (m1, k1, f1)):
                    hist.append('%s.%s' % (cls, m))
                    try:
                        obj = targets(O)[key]
                        before, v0 = ser(O), O.get_version()
                    except Exception:
                        break
                    try:
                        getattr(obj, m)(*argf(O, N))
                    except Exception:
                        pass
                    try:
                        after = ser(O)
                    except Exception:
                        break
                    if after != before and not O.get_version() > v0:
                        adopted = any(h.split('.')[1] in ADOPTING for h in hist[:-1])
                        ck.oracle_failures.append({'signature': 'adopted-element-notifies-other-ontology' if adopted else '%s.%s/after-%s' % (cls, m, hist[-2].split('.')[1] if len(hist) > 1 else 'nothing'),
                                                   'input': {'class': cls, 'method': m, 'history': hist},
                                                   'observed': 'counter %d -> %d' % (v0, O.get_version())})
                npairs += 1
    ck.cov['evaluations'] += 3 * npairs
    ck.cov['exhaustive_small_scope'] = 'all histories a; b; a for every ordered pair of mutators of one class (%d histories)' % npairs
    # consumer: the event validator follows the ontology
    try:
        from edxml.event_validator import EventValidator
        from edxml import EDXMLEvent
        O = fresh()
        v = EventValidator(O)
        ev = EDXMLEvent({'q': ['5']}, 'ta', '/s/')          # mandatory p missing
        r1 = v.is_valid(ev)
        O.get_event_type('ta')['p'].make_optional()
        r2 = v.is_valid(ev)
        if r1 or not r2:
            ck.oracle_failures.append({'signature': 'consumer/event-validator-stale-schema', 'input': {'class': 'EventValidator', 'method': 'is_valid'},
                                       'observed': 'before make_optional: %s, after: %s (expected False, True)' % (r1, r2)})
        ck.cov['evaluations'] += 2
    except Exception as e:
        ck.oracle_failures.append({'signature': 'consumer/exception', 'input': {'class': 'EventValidator', 'method': 'is_valid'}, 'observed': repr(e)})
    # consumer histories: one validator, plain and parsed (namespaced) events, ontology changes in between; after every change the
    # verdicts must be those of a validator created afterwards, whichever kind of event is validated first
    try:
        import io
        from edxml import EDXMLPullParser, EDXMLWriter

        def parsed(props):
            buf = io.BytesIO()
            with EDXMLWriter(buf, validate=False) as w:
                w.add_ontology(OL.load_element(OL.base_ontology()))
                w.add_event(EDXMLEvent(props, 'ta', '/s/'))
            got = []

            class P(EDXMLPullParser):
                def _parsed_event(self, e):
                    got.append(e)
            P(validate=False).parse(io.BytesIO(buf.getvalue()))
            return got[0]
        changes = [('make_optional', lambda O: O.get_event_type('ta')['p'].make_optional()),
                   ('make_mandatory', lambda O: O.get_event_type('ta')['p'].make_mandatory()),
                   ('remove_property', lambda O: O.get_event_type('ta').remove_property('q')),
                   ('update-from-newer', lambda O: O.update(newer()))]
        probes = [{'q': ['5']}, {'p': ['a'], 'q': ['5']}, {'p': ['a']}, {'p': ['a'], 'x': ['y']}]
        for order in (('plain', 'parsed'), ('parsed', 'plain')):
            for n1, c1 in changes:
                for n2, c2 in changes:
                    O = fresh()
                    v = EventValidator(O)
                    evs = {'plain': [EDXMLEvent(p, 'ta', '/s/') for p in probes], 'parsed': [parsed(p) for p in probes]}
                    for stage, change in (('initial', None), (n1, c1), (n2, c2)):
                        if change is not None:
                            try:
                                change(O)
                            except Exception:
                                break
                        ref = EventValidator(O)
                        for flavour in order:
                            for i, ev in enumerate(evs[flavour]):
                                try:
                                    got, want = v.is_valid(ev), ref.is_valid(ev)
                                except Exception:
                                    continue
                                ck.cov['evaluations'] += 1
                                if got != want:
                                    ck.oracle_failures.append({'signature': 'consumer/event-validator-stale-schema/%s-event' % flavour,
                                                               'input': {'class': 'EventValidator', 'method': 'is_valid', 'history': [n1, n2], 'stage': stage,
                                                                         'order': list(order), 'event': probes[i]},
                                                               'observed': 'long-lived validator says %s, a validator created after the change says %s' % (got, want)})
        ck.dist('validator-consumer-histories')
    except Exception as e:
        ck.oracle_failures.append({'signature': 'consumer/exception', 'input': {'class': 'EventValidator', 'method': 'is_valid'}, 'observed': repr(e)})
    # consumer: the transcoder mediator writes an ontology update whenever the counter moved, also for changes made after a refused
    # record or after the last record (written by close()); scenario and oracle shared with C17
    try:
        import c17
        for _ in range(ck.budget(40, 400)):
            c17.recovery_scenario(ck, ck.rng)
        ck.dist('mediator-consumer-histories')
    except Exception as e:
        ck.oracle_failures.append({'signature': 'consumer/exception', 'input': {'class': 'TranscoderMediator', 'method': 'close'}, 'observed': repr(e)})
    ck.cov['traces_validated_against_impl'] = ck.cov['evaluations']
    ck.cov['rule'] = ('every public mutator of the 10 ontology classes (enumerated by introspection, %d methods) called with curated arguments on a freshly '
                      'loaded populated ontology, on elements of the ontology itself and on elements adopted from another ontology; random mutator '
                      'histories of length 2-10; serialisation before/after vs. get_version(); non-trivial = the call changed the serialisation' % len(muts))
    return ck.finish()


if __name__ == '__main__':
    sys.exit(main(sys.argv[1:]))
