"""Shared machinery of all checks: Coq build / obligation bookkeeping, cases.v
correspondence runs, known findings, replay files, evidence."""
import fcntl, glob, hashlib, json, os, random, re, subprocess, sys, time
from concurrent.futures import ThreadPoolExecutor

VERIF = os.path.dirname(os.path.dirname(os.path.dirname(os.path.abspath(__file__))))
COQ = os.path.join(VERIF, 'coq')
THEORIES = os.path.join(COQ, 'theories')
BUILD = os.path.join(VERIF, '_build')
REPO = os.environ.get('EDXML_REPO', '/repo')
NPROC = min(16, os.cpu_count() or 4)

KERNEL_TB = [
    'Coq 8.16.1 kernel (coqc, full .vo build, vm_compute used, native_compute not used)',
    'harness: generators, canonicalisation, oracle, Python->Coq term printer (harness/common/core.py)',
    'cases.v correspondence evaluated by coqc with vm_compute (no extraction)',
]


# ----------------------------------------------------------------------------
# Python value -> Coq term
class Z(int):
    pass


class Nat(int):
    pass


class Raw(str):
    """a Coq term given verbatim"""


class C:
    """constructor application"""
    def __init__(self, name, *args):
        self.name, self.args = name, args


def coq(v):
    if isinstance(v, Raw):
        return str(v)
    if isinstance(v, bool):
        return 'true' if v else 'false'
    if isinstance(v, Z):
        return '(%d)%%Z' % v
    if isinstance(v, Nat):
        return '%d%%nat' % v
    if isinstance(v, int):
        assert v >= 0, v
        return '%d%%N' % v
    if isinstance(v, str):
        if len(v) > 3 and all(32 <= ord(c) < 127 for c in v):
            return '(s2l "%s"%%string)' % v.replace('"', '""')
        return '[' + ';'.join('%d%%N' % ord(c) for c in v) + ']'
    if isinstance(v, bytes):
        return '[' + ';'.join('%d%%N' % b for b in v) + ']'
    if isinstance(v, (list,)):
        return '[' + '; '.join(coq(x) for x in v) + ']'
    if isinstance(v, tuple):
        return '(' + ', '.join(coq(x) for x in v) + ')'
    if v is None:
        return 'None'
    if isinstance(v, C):
        if not v.args:
            return v.name
        return '(' + v.name + ' ' + ' '.join(coq(a) for a in v.args) + ')'
    raise TypeError(type(v))


def Some(x):
    return C('Some', x)


# ----------------------------------------------------------------------------
def sh(cmd, timeout=None, cwd=None, env=None):
    p = subprocess.run(cmd, shell=isinstance(cmd, str), cwd=cwd, env=env, timeout=timeout,
                       stdout=subprocess.PIPE, stderr=subprocess.STDOUT, text=True, errors='replace')
    return p.returncode, p.stdout


class BuildLock:
    def __enter__(self):
        os.makedirs(BUILD, exist_ok=True)
        self.f = open(os.path.join(BUILD, 'lock'), 'w')
        fcntl.flock(self.f, fcntl.LOCK_EX)
        return self

    def __exit__(self, *a):
        fcntl.flock(self.f, fcntl.LOCK_UN)
        self.f.close()


def write_if_changed(path, text):
    os.makedirs(os.path.dirname(path), exist_ok=True)
    try:
        if open(path).read() == text:
            return False
    except FileNotFoundError:
        pass
    with open(path, 'w') as f:
        f.write(text)
    return True


def ensure_makefile():
    mk = os.path.join(COQ, 'Makefile')
    cp = os.path.join(COQ, '_CoqProject')
    if not os.path.exists(mk) or os.path.getmtime(mk) < os.path.getmtime(cp):
        rc, out = sh('coq_makefile -f _CoqProject -o Makefile', cwd=COQ, timeout=120)
        if rc != 0:
            raise RuntimeError('coq_makefile failed: ' + out)


def coq_build(targets, timeout=1500):
    """make the given .vo targets (paths relative to coq/).  Returns (ok, output)."""
    with BuildLock():
        ensure_makefile()
        rc, out = sh(['timeout', str(timeout), 'make', '-j%d' % NPROC] + list(targets), cwd=COQ, timeout=timeout + 30)
    return rc == 0, out


AUDIT_RE = re.compile(r'\b(Admitted|admit|Axiom|Axioms|Parameter|Parameters|Conjecture|Conjectures|Hypothesis|Hypotheses|'
                      r'Variable|Variables|Unset\s+Guard|bypass_check|Admit\s+Obligations|type-in-type|impredicative-set|'
                      r'native_compute|Unset\s+Universe\s+Checking|Unset\s+Positivity)\b')


def strip_comments(src):
    out, depth, i = [], 0, 0
    while i < len(src):
        if src.startswith('(*', i):
            depth += 1
            i += 2
        elif src.startswith('*)', i) and depth:
            depth -= 1
            i += 2
        else:
            if not depth:
                out.append(src[i])
            i += 1
    return ''.join(out)


def audit_sources():
    """Fail-closed scan of every .v file of the development for escape hatches.
    `Variable`/`Hypothesis` are allowed only inside a Section."""
    problems = []
    files = sorted(glob.glob(os.path.join(THEORIES, '**', '*.v'), recursive=True))
    for f in files:
        src = strip_comments(open(f).read())
        depth = 0
        for ln, line in enumerate(src.split('\n'), 1):
            if re.match(r'\s*Section\b', line):
                depth += 1
            if re.match(r'\s*End\b', line) and depth:
                depth -= 1
            for m in AUDIT_RE.finditer(line):
                w = m.group(1)
                if w in ('Variable', 'Variables', 'Hypothesis', 'Hypotheses') and depth > 0:
                    continue
                problems.append('%s:%d: %s' % (os.path.relpath(f, VERIF), ln, w))
    cp = open(os.path.join(COQ, '_CoqProject')).read()
    for bad in ('-type-in-type', '-impredicative-set', '-vos', '-native'):
        if bad in cp:
            problems.append('_CoqProject: ' + bad)
    return len(files), problems


ALLOWED_AXIOMS = {
    # standard-library axioms a property may rely on (named in its evidence when used)
    'functional_extensionality_dep', 'FunctionalExtensionality.functional_extensionality_dep',
    'Eqdep.Eq_rect_eq.eq_rect_eq', 'Classical_Prop.classic', 'ClassicalDedekindReals.sig_forall_dec',
    'ClassicalDedekindReals.sig_not_dec', 'ProofIrrelevance.proof_irrelevance', 'JMeq.JMeq_eq',
}


def check_props(pid, timeout=600):
    """(Re)compile Props/<pid>.v and read the Print Assumptions block of every theorem.
    Returns list of dicts {name, status: proved|failed, assumptions:[...]} and raw output."""
    rel = 'theories/Props/%s.v' % pid
    path = os.path.join(COQ, rel)
    src = strip_comments(open(path).read())
    names = re.findall(r'Print\s+Assumptions\s+([\w\.]+)\s*\.', src)
    declared = re.findall(r'\b(?:Theorem|Lemma|Corollary)\s+(\w+)', src)
    with BuildLock():
        ensure_makefile()
        vo = rel[:-2] + '.vo'
        try:
            os.remove(os.path.join(COQ, vo))
        except FileNotFoundError:
            pass
        rc, out = sh(['timeout', str(timeout), 'make', '-j%d' % NPROC, vo], cwd=COQ, timeout=timeout + 30)
    thms = []
    if rc != 0:
        # find which file / theorem failed
        m = re.search(r'File "([^"]+)", line (\d+)', out)
        where = '%s:%s' % (m.group(1), m.group(2)) if m else 'unknown'
        for n in declared or [pid]:
            thms.append({'name': n, 'status': 'failed', 'assumptions': [], 'where': where})
        return thms, out
    # split output into assumption blocks
    blocks = re.split(r'(?m)^(?=Closed under the global context|Axioms:)', out)
    blocks = [b for b in blocks if b.startswith('Closed under') or b.startswith('Axioms:')]
    for i, n in enumerate(names):
        if i >= len(blocks):
            thms.append({'name': n, 'status': 'failed', 'assumptions': ['<no Print Assumptions output>']})
            continue
        b = blocks[i]
        if b.startswith('Closed under'):
            thms.append({'name': n, 'status': 'proved', 'assumptions': []})
        else:
            ax = re.findall(r'(?m)^([\w\.]+)\s*:', b)
            bad = [a for a in ax if a not in ALLOWED_AXIOMS and a.split('.')[-1] not in ALLOWED_AXIOMS]
            thms.append({'name': n, 'status': 'proved' if not bad else 'failed', 'assumptions': ax})
    missing = [d for d in declared if d not in names]
    for d in missing:
        thms.append({'name': d, 'status': 'failed', 'assumptions': ['<no Print Assumptions for this theorem>']})
    return thms, out


# ----------------------------------------------------------------------------
def compile_defs(pid, imports, defs_text, tag='defs', timeout=600):
    """compile shared definitions once; returns the import line for cases files (or None on failure, plus output)"""
    d = os.path.join(BUILD, 'cases', pid, tag)
    os.makedirs(d, exist_ok=True)
    for f in glob.glob(os.path.join(d, '*')):
        os.remove(f)
    name = 'Defs_%s_%s' % (pid, tag)
    p = os.path.join(d, name + '.v')
    open(p, 'w').write('From Coq Require Import String.\n' + imports + '\n' + defs_text + '\n')
    rc, out = sh(['timeout', str(timeout), 'coqc', '-q', '-noglob', '-Q', THEORIES, 'EdxmlVerif', '-Q', d, 'Cases' + pid + tag, '-w', '-all', p], cwd=d, timeout=timeout + 30)
    if rc != 0:
        return None, out
    return ('From Cases%s%s Require Import %s.' % (pid, tag, name), ['-Q', d, 'Cases' + pid + tag]), out


def run_cases(pid, imports, case_type, cases, eval_body, shard=400, timeout=600, tag='t2', extra_defs='', defs=None):
    """cases: list of Coq terms (strings) of type case_type.  eval_body: Coq function
    `case_type -> bool` returning true iff model agrees with the recorded implementation
    outcome.  Returns (list of disagreeing indices, dict idx -> raw model dump, errors)."""
    d = os.path.join(BUILD, 'cases', pid, tag)
    os.makedirs(d, exist_ok=True)
    for f in glob.glob(os.path.join(d, '*')):
        os.remove(f)
    shards = [cases[i:i + shard] for i in range(0, len(cases), shard)]
    files = []
    for si, sc in enumerate(shards):
        name = 'cases_%s_%s_%d' % (pid, tag, si)
        body = ['From Coq Require Import String.', imports, defs[0] if defs else '', 'Set Printing Width 1000000.', 'Set Printing Depth 1000000.', extra_defs,
                'Definition cases : list (nat * (%s)) := [' % case_type,
                ';\n'.join('(%d%%nat, %s)' % (si * shard + j, c) for j, c in enumerate(sc)), '].',
                'Definition agree : (%s) -> bool := %s.' % (case_type, eval_body),
                'Definition bad := filter (fun c => negb (agree (snd c))) cases.',
                'Goal True. idtac "@@BAD". Abort.',
                'Eval vm_compute in (map fst bad).',
                'Goal True. idtac "@@END". Abort.']
        p = os.path.join(d, name + '.v')
        open(p, 'w').write('\n'.join(body) + '\n')
        files.append(p)

    def one(p):
        return sh(['timeout', str(timeout), 'coqc', '-q', '-Q', THEORIES, 'EdxmlVerif'] + (defs[1] if defs else []) + ['-w', '-all', p], cwd=d, timeout=timeout + 30)

    bad, errors = [], []
    with ThreadPoolExecutor(NPROC) as ex:
        for p, (rc, out) in zip(files, ex.map(one, files)):
            if rc != 0 or '@@BAD' not in out:
                errors.append('%s: rc=%d %s' % (os.path.basename(p), rc, out[-1500:]))
                continue
            seg = out.split('@@BAD', 1)[1].split('@@END', 1)[0]
            m = re.search(r'=\s*\[([^\]]*)\]\s*:\s*list nat', seg)
            if not m:
                errors.append('%s: unparsable output %r' % (os.path.basename(p), seg[:300]))
                continue
            bad += [int(x) for x in re.findall(r'\d+', m.group(1))]
    return sorted(bad), errors


def coq_eval(pid, imports, exprs, timeout=300, tag='eval'):
    """Evaluate Coq expressions with vm_compute; returns raw printed strings."""
    d = os.path.join(BUILD, 'cases', pid, tag)
    os.makedirs(d, exist_ok=True)
    p = os.path.join(d, 'eval_%s.v' % pid)
    body = ['From Coq Require Import String.', imports, 'Set Printing Width 1000000.', 'Set Printing Depth 1000000.']
    for i, e in enumerate(exprs):
        body += ['Goal True. idtac "@@E%d". Abort.' % i, 'Eval vm_compute in (%s).' % e]
    body.append('Goal True. idtac "@@END". Abort.')
    open(p, 'w').write('\n'.join(body) + '\n')
    rc, out = sh(['timeout', str(timeout), 'coqc', '-q', '-Q', THEORIES, 'EdxmlVerif', '-w', '-all', p], cwd=d, timeout=timeout + 30)
    if rc != 0:
        return None, out
    res = []
    for i in range(len(exprs)):
        seg = out.split('@@E%d\n' % i, 1)[1]
        nxt = '@@E%d\n' % (i + 1) if i + 1 < len(exprs) else '@@END'
        res.append(seg.split(nxt, 1)[0].strip())
    return res, out


# ----------------------------------------------------------------------------
def load_findings(pid):
    p = os.path.join(VERIF, 'known_findings.json')
    if not os.path.exists(p):
        return []
    return [f for f in json.load(open(p)) if f.get('property') == pid]


def repo_fingerprint(files):
    h = hashlib.sha256()
    for f in files:
        try:
            h.update(open(os.path.join(REPO, f), 'rb').read())
        except FileNotFoundError:
            h.update(b'<missing>')
    return h.hexdigest()[:16]


class Check:
    """Bookkeeping of one check run: obligations, correspondence, oracle failures,
    verdict, evidence, replay files."""

    def __init__(self, pid, anchors=()):
        self.pid = pid
        self.t0 = time.time()
        self.seed = int(os.environ.get('VERIF_SEED', '0'))
        self.tier = os.environ.get('VERIF_TIER', 'quick')
        self.rng = random.Random('%s-%d' % (pid, self.seed))
        self.anchors = list(anchors)
        self.theorems = []
        self.obligation_failures = []      # (name, detail)
        self.corr_failures = []            # dicts (correspondence disagreements)
        self.oracle_failures = []          # dicts with 'signature'
        self.cov = {'evaluations': 0, 'distinct_nontrivial': 0, 'samples': [], 'traces_validated_against_impl': 0,
                    'disagreements_checked': 0, 'input_distribution': {}}
        self.assumptions = []
        self.trusted = list(KERNEL_TB)
        self.notes = []
        self.known = load_findings(pid)
        self.known_confirmed = []

    def thorough(self):
        return self.tier == 'thorough'

    def budget(self, quick, thorough):
        return thorough if self.thorough() else quick

    # -- obligations ------------------------------------------------------
    def prove(self, extra_targets=()):
        # every Generated/*.v is regenerated from /repo's current source before anything is proved
        import importlib
        for name in ('c01', 'c08', 'c09', 'c12', 'c13', 'c15', 'c20'):
            try:
                with BuildLock():
                    importlib.import_module('translate.' + name).generate()
            except Exception as e:
                self.obligation_failures.append(('T1:' + name, 'translator raised %r' % (e,)))
        nfiles, problems = audit_sources()
        self.cov['audited_files'] = nfiles
        for p in problems:
            self.obligation_failures.append(('audit', p))
        thms, out = check_props(self.pid)
        self.theorems = thms
        if self.thorough() and all(t['status'] == 'proved' for t in thms):
            # independent re-check of the compiled files of this property and everything they depend on
            with BuildLock():
                rc, cout = sh(['timeout', '2400', 'coqchk', '-silent', '-o', '-Q', 'theories', 'EdxmlVerif', 'EdxmlVerif.Props.%s' % self.pid], cwd=COQ, timeout=2500)
            summary = cout[cout.find('CONTEXT SUMMARY'):] if 'CONTEXT SUMMARY' in cout else cout[-800:]
            self.cov['coqchk'] = ' '.join(summary.split())[:600]
            clean = rc == 0 and all(('* %s: <none>' % k) in summary for k in ('Axioms', 'Constants/Inductives relying on type-in-type',
                                                                               'Constants/Inductives relying on unsafe (co)fixpoints', 'Inductives whose positivity is assumed'))
            if not clean:
                self.obligation_failures.append(('coqchk', 'coqchk -o did not report a clean context: rc=%d %s' % (rc, summary[-600:])))
        for t in thms:
            if t['status'] != 'proved':
                self.obligation_failures.append((t['name'], t.get('where', '') + ' ' + ' '.join(t['assumptions']) + '\n' + out[-3000:]))
        return not self.obligation_failures

    # -- results ----------------------------------------------------------
    def dist(self, key, n=1):
        d = self.cov['input_distribution']
        d[key] = d.get(key, 0) + n

    def sample(self, s, limit=4):
        if len(self.cov['samples']) < limit:
            self.cov['samples'].append(s)

    def write_replay(self, name, obj):
        d = os.path.join(VERIF, 'replays')
        os.makedirs(d, exist_ok=True)
        safe = re.sub(r'[^A-Za-z0-9_.-]+', '_', name)[:120]
        p = os.path.join(d, '%s-%s-%d.json' % (self.pid, safe, self.seed))
        obj = dict(obj, property=self.pid, seed=self.seed, tier=self.tier,
                   repo_fingerprint=repo_fingerprint(self.anchors))
        with open(p, 'w') as f:
            json.dump(obj, f, indent=1, default=str)
        return p

    def finish(self):
        """Decide, print VIOLATION / KNOWN-FINDING lines, write evidence, return exit code."""
        violations = []
        open_known = {f['signature']: f for f in self.known if f.get('status') == 'open'}
        seen_sigs = set()
        unlisted = []
        for f in self.oracle_failures:
            sig = f['signature']
            if sig in open_known:
                if sig not in seen_sigs:
                    seen_sigs.add(sig)
                    self.known_confirmed.append(sig)
                    print('KNOWN-FINDING: property=%s %s' % (self.pid, open_known[sig].get('what', sig)))
            else:
                unlisted.append(f)
        # unlisted oracle failures: one violation per signature (concrete failing input)
        by_sig = {}
        for f in unlisted:
            by_sig.setdefault(f['signature'], f)
        for sig, f in sorted(by_sig.items()):
            p = self.write_replay(sig, dict(f, kind='failing-input'))
            violations.append('VIOLATION property=%s replay=%s' % (self.pid, p))
        # broken obligations / correspondence without a concrete failing input
        if not by_sig:
            if self.obligation_failures:
                p = self.write_replay('broken-obligation', {
                    'kind': 'broken-obligation',
                    'obligation': [n for n, _ in self.obligation_failures],
                    'detail': [d[-2000:] for _, d in self.obligation_failures][:5]})
                violations.append('VIOLATION property=%s replay=%s no-failing-input-found' % (self.pid, p))
            elif self.corr_failures:
                p = self.write_replay('broken-correspondence', {
                    'kind': 'broken-obligation', 'obligation': 'correspondence model<->implementation',
                    'disagreements': self.corr_failures[:5]})
                violations.append('VIOLATION property=%s replay=%s no-failing-input-found' % (self.pid, p))
        for v in violations:
            print(v)
        cov = dict(self.cov)
        cov['obligations'] = max(1, len(self.theorems))
        cov['discharged'] = sum(1 for t in self.theorems if t['status'] == 'proved')
        cov['checker_cmd'] = 'cd /verif/coq && make theories/Props/%s.vo  (coqc 8.16.1; Print Assumptions under every theorem)' % self.pid
        cov['trusted_base'] = self.trusted
        cov['theorems'] = self.theorems
        cov['known_findings_confirmed'] = self.known_confirmed
        cov['correspondence_disagreements'] = len(self.corr_failures)
        cov['correspondence_examples'] = self.corr_failures[:5]
        cov['oracle_failures'] = len(self.oracle_failures)
        cov['notes'] = self.notes
        ev = {'property_id': self.pid, 'tier': 'thorough' if self.thorough() else 'quick', 'seed': self.seed,
              'level': 'proof', 'coverage': cov, 'assumptions': self.assumptions,
              'wall_s': round(time.time() - self.t0, 2), 'violations': len(violations)}
        os.makedirs(os.path.join(VERIF, 'evidence'), exist_ok=True)
        with open(os.path.join(VERIF, 'evidence', self.pid + '.json'), 'w') as f:
            json.dump(ev, f, indent=1, default=str)
        print('%s: theorems %d/%d, cases %d (nontrivial distinct %d), corr disagreements %d, oracle failures %d, known %d, %.1fs'
              % (self.pid, cov['discharged'], cov['obligations'], cov['evaluations'], cov['distinct_nontrivial'],
                 len(self.corr_failures), len(self.oracle_failures), len(self.known_confirmed), time.time() - self.t0))
        return 1 if violations else 0
