"""Independent writer of EDXML documents (does not use the SDK's writer or ontology
classes): ontology / event elements are emitted as text from plain dictionaries."""
from xml.sax.saxutils import escape, quoteattr

NS = 'http://edxml.org/edxml'


def object_type_xml(name, data_type='string:0:mc:u', version=1, extra=''):
    return ('<object-type name=%s display-name-singular=%s display-name-plural=%s description=%s '
            'data-type=%s version="%d"%s/>' % (quoteattr(name), quoteattr(name), quoteattr(name + 's'),
                                               quoteattr(name), quoteattr(data_type), version, extra))


def property_xml(p):
    a = ('<property name=%s object-type=%s description=%s optional="%s" multivalued="%s" confidence="%d"'
         % (quoteattr(p['name']), quoteattr(p['object_type']), quoteattr(p.get('description', p['name'])),
            'true' if p.get('optional') else 'false', 'true' if p.get('multivalued') else 'false',
            p.get('confidence', 10)))
    if p.get('merge') and p['merge'] != 'any':
        a += ' merge=%s' % quoteattr(p['merge'])
    return a + '/>'


def event_type_xml(et):
    s = ('<event-type name=%s display-name-singular=%s display-name-plural=%s description=%s '
         'summary=%s story=%s version="%d"' % (
             quoteattr(et['name']), quoteattr(et['name']), quoteattr(et['name'] + 's'), quoteattr(et['name']),
             quoteattr(et.get('summary', 'no description available')),
             quoteattr(et.get('story', 'no description available')), et.get('version', 1)))
    for k in ('event-version', 'sequence', 'timespan-start', 'timespan-end'):
        if et.get(k):
            s += ' %s=%s' % (k, quoteattr(et[k]))
    s += '>'
    if et.get('parent'):
        s += et['parent']
    s += '<properties>' + ''.join(property_xml(p) for p in et.get('properties', [])) + '</properties>'
    if et.get('relations'):
        s += '<relations>' + ''.join(et['relations']) + '</relations>'
    if et.get('attachments'):
        s += '<attachments>' + ''.join(
            '<attachment name=%s description=%s display-name-singular=%s display-name-plural=%s '
            'media-type=%s encoding=%s/>' % (quoteattr(a['name']), quoteattr(a['name']), quoteattr(a['name']),
                                             quoteattr(a['name'] + 's'), quoteattr(a.get('media_type', 'text/plain')),
                                             quoteattr(a.get('encoding', 'unicode')))
            for a in et['attachments']) + '</attachments>'
    return s + '</event-type>'


def source_xml(uri, version=1):
    return '<source uri=%s description="no description available" version="%d"/>' % (quoteattr(uri), version)


def ontology_xml(object_types=(), event_types=(), sources=(), concepts=()):
    """object_types: list of (name, data_type) or dicts; event_types: list of dicts; sources: list of uris"""
    ots = []
    for o in object_types:
        if isinstance(o, dict):
            ots.append(object_type_xml(o['name'], o.get('data_type', 'string:0:mc:u'), o.get('version', 1), o.get('extra', '')))
        else:
            ots.append(object_type_xml(o[0], o[1]))
    return ('<ontology><object-types>%s</object-types><concepts>%s</concepts><event-types>%s</event-types>'
            '<sources>%s</sources></ontology>' % (
                ''.join(ots), ''.join(concepts), ''.join(event_type_xml(e) for e in event_types),
                ''.join(source_xml(s) if isinstance(s, str) else source_xml(*s) for s in sources)))


def event_xml(type_name, source_uri, props, attachments=None, parents=None, foreign=None):
    """props: list of (name, value) pairs (order preserved)"""
    s = '<event'
    if type_name is not None:
        s += ' event-type=%s' % quoteattr(type_name)
    if source_uri is not None:
        s += ' source-uri=%s' % quoteattr(source_uri)
    if parents:
        s += ' parents=%s' % quoteattr(','.join(parents))
    for k, v in (foreign or []):
        s += ' %s=%s' % (k, quoteattr(v))
    s += '><properties>' + ''.join('<%s>%s</%s>' % (n, escape(v), n) for n, v in props) + '</properties>'
    if attachments:
        s += '<attachments>' + ''.join('<%s id=%s>%s</%s>' % (n, quoteattr(i), escape(v), n)
                                       for n, i, v in attachments) + '</attachments>'
    return s + '</event>'


def document(children, version='3.0.0', extra_ns=''):
    return ('<?xml version="1.0" encoding="utf-8"?>\n<edxml xmlns="%s"%s version="%s">%s</edxml>'
            % (NS, extra_ns, version, ''.join(children))).encode('utf-8')
