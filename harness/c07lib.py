"""C07: operation alphabet, the dictionary-of-sets reference model (the property's own oracle),
drivers for the three event classes and observation of their state."""
import copy, hashlib, io
from lxml import etree
from common import gen_doc as G

PROPS = ['p', 'q']
VALS = ['a', 'b', 'c']
ATTS = ['att', 'att2']
IDS = ['i1', 'i2']
PARENTS = [hashlib.sha1(b'par%d' % i).hexdigest() for i in range(3)]
FKEYS = ['{http://f/}k', '{http://f/}m']
NS = '{http://edxml.org/edxml}'


def sha(v):
    return hashlib.sha1(v.encode()).hexdigest()


# ---------------------------------------------------------------------------
class Ref:
    """the dictionary-of-sets model"""
    def __init__(self, typ, src, props, atts, parents, foreign):
        self.typ, self.src = typ, src
        self.props = {k: set(v) for k, v in props.items() if v}
        self.atts = {k: dict(v) for k, v in atts.items() if v}
        self.parents = set(parents)
        self.foreign = dict(foreign)

    def clone(self):
        return copy.deepcopy(self)

    def apply(self, op, extra=None):
        """returns an exception class name when the operation must raise, else None"""
        k = op[0]
        if k in ('setitem', 'props_setitem'):
            self.props[op[1]] = set(op[2])
        elif k in ('delitem', 'props_delitem'):
            self.props.pop(op[1], None)
        elif k == 'obj_add':
            self.props.setdefault(op[1], set()).add(op[2])
        elif k == 'obj_remove':
            if op[2] not in self.props.get(op[1], set()):
                return 'KeyError'
            self.props[op[1]].remove(op[2])
        elif k == 'obj_discard':
            self.props.get(op[1], set()).discard(op[2])
        elif k == 'obj_pop':
            if not self.props.get(op[1]):
                return 'KeyError'
            self.props[op[1]].discard(extra)          # the element the implementation returned
        elif k == 'obj_clear':
            self.props.pop(op[1], None)
        elif k == 'obj_update':
            self.props.setdefault(op[1], set()).update(op[2])
        elif k == 'set_properties':
            self.props = {p: set(v) for p, v in op[1].items()}
        elif k == 'set_attachment':
            v = op[2]
            if v is None:
                self.atts.pop(op[1], None)
            elif isinstance(v, str):
                self.atts[op[1]] = {sha(v): v}
            elif isinstance(v, list):
                self.atts[op[1]] = {sha(x): x for x in v}
            else:
                self.atts[op[1]] = dict(v)
        elif k == 'att_setvalue':
            self.atts.setdefault(op[1], {})[op[2]] = op[3]
        elif k == 'att_delvalue':
            self.atts.get(op[1], {}).pop(op[2], None)
        elif k == 'del_attachment':
            self.atts.pop(op[1], None)
        elif k == 'set_parents':
            self.parents = set(op[1])
        elif k == 'add_parents':
            self.parents |= set(op[1])
        elif k == 'set_type':
            self.typ = op[1]
        elif k == 'set_source':
            self.src = op[1]
        elif k == 'set_foreign':
            self.foreign = dict(op[1])
        elif k == 'flush':
            pass
        else:
            raise ValueError(k)
        self.props = {p: v for p, v in self.props.items() if v}
        self.atts = {a: v for a, v in self.atts.items() if v}
        return None

    def state(self):
        return {'type': self.typ, 'source': self.src, 'props': {k: sorted(v) for k, v in sorted(self.props.items())},
                'atts': {k: dict(sorted(v.items())) for k, v in sorted(self.atts.items())},
                'parents': sorted(self.parents), 'foreign': dict(sorted(self.foreign.items()))}


# ---------------------------------------------------------------------------
def make(rep, init):
    from edxml import EDXMLEvent, EventElement, EDXMLPullParser
    props = {k: list(v) for k, v in init['props'].items()}
    atts = {k: dict(v) for k, v in init['atts'].items()}
    if rep == 'ParsedEvent':
        et = {'name': 'ta', 'properties': [{'name': p, 'object_type': 'o', 'multivalued': True, 'optional': True} for p in PROPS],
              'attachments': [{'name': a} for a in ATTS]}
        ont = G.ontology_xml([('o', 'string:0:mc:u')], [et], ['/s/', '/s2/'])
        foreign = [('xmlns:f', 'http://f/')] + [('f:' + k.split('}')[1], v) for k, v in init['foreign'].items()]
        ev = G.event_xml(init['type'], init['source'], [(k, v) for k, vs in props.items() for v in vs],
                         [(a, i, v) for a, d in atts.items() for i, v in d.items()], init['parents'], foreign)
        got = []

        class P(EDXMLPullParser):
            def _parsed_event(self, e):
                got.append(e)
        P(validate=False).parse(io.BytesIO(G.document([ont, ev])))
        return got[0]
    cls = EDXMLEvent if rep == 'EDXMLEvent' else EventElement
    e = cls(props, init['type'], init['source'], list(init['parents']) or None, atts or None)
    if init['foreign']:
        e.set_foreign_attributes(dict(init['foreign']))
    return e


def apply_impl(ev, op):
    """returns (exception class name or None, extra)"""
    k = op[0]
    extra = None
    try:
        if k == 'setitem':
            ev[op[1]] = list(op[2])
        elif k == 'delitem':
            del ev[op[1]]
        elif k == 'obj_add':
            ev[op[1]].add(op[2])
        elif k == 'obj_remove':
            ev[op[1]].remove(op[2])
        elif k == 'obj_discard':
            ev[op[1]].discard(op[2])
        elif k == 'obj_pop':
            extra = ev[op[1]].pop()
        elif k == 'obj_clear':
            ev[op[1]].clear()
        elif k == 'obj_update':
            via = op[3] if len(op) > 3 else None
            if via == 'copy_properties_from':
                from edxml import EDXMLEvent
                ev.copy_properties_from(EDXMLEvent({'zz': list(op[2])}, 'ta', '/s/'), {'zz': op[1]})
            elif via == 'move_properties_from':
                from edxml import EventElement
                ev.move_properties_from(EventElement({'zz': list(op[2])}, 'ta', '/s/'), {'zz': [op[1]]})
            else:
                ev[op[1]].update(list(op[2]))
        elif k == 'props_setitem':
            via = op[3] if len(op) > 3 else None
            if via == 'object-set-of-another-event':
                from edxml import EDXMLEvent, EventElement
                other = (EDXMLEvent if len(op[2]) % 2 else EventElement)({'zz': list(op[2])}, 'ta', '/s/')
                ev.properties[op[1]] = other.properties['zz']
            else:
                ev.properties[op[1]] = list(op[2])
        elif k == 'props_delitem':
            del ev.properties[op[1]]
        elif k == 'set_properties':
            ev.set_properties({p: list(v) for p, v in op[1].items()})
        elif k == 'set_attachment':
            v = op[2]
            ev.set_attachment(op[1], dict(v) if isinstance(v, dict) else list(v) if isinstance(v, list) else v)
        elif k == 'att_setvalue':
            ev.attachments[op[1]][op[2]] = op[3]
        elif k == 'att_delvalue':
            del ev.attachments[op[1]][op[2]]
        elif k == 'del_attachment':
            del ev.attachments[op[1]]
        elif k == 'set_parents':
            ev.set_parents(list(op[1]))
        elif k == 'add_parents':
            ev.add_parents(list(op[1]))
        elif k == 'set_type':
            ev.set_type(op[1])
        elif k == 'set_source':
            ev.set_source(op[1])
        elif k == 'set_foreign':
            ev.set_foreign_attributes(dict(op[1]))
        elif k == 'flush':
            if hasattr(ev, 'flush'):
                ev.flush()
        else:
            raise ValueError(k)
    except KeyError:
        return 'KeyError', None
    return None, extra


def view_state(ev):
    """what the mapping interface and the getters show"""
    props = {k: sorted(v) for k, v in sorted(dict(ev.get_properties().items()).items()) if len(v)}
    mapping = {k: sorted(ev[k]) for k in sorted(ev.keys())}
    atts = {k: dict(sorted(v.items())) for k, v in sorted(ev.get_attachments().items()) if len(v)}
    return {'type': ev.get_type_name(), 'source': ev.get_source_uri(), 'props': props, 'mapping': mapping, 'len': len(ev),
            'atts': atts, 'parents': sorted(ev.get_parent_hashes()),
            'foreign': dict(sorted(ev.get_foreign_attributes().items()))}


def xml_state(ev):
    """what a writer would serialise: get_element(), read back with plain lxml"""
    el = etree.fromstring(etree.tostring(ev.get_element()))
    strip = lambda t: t.split('}')[1] if t.startswith('{') else t
    props, atts = {}, {}
    for ch in el:
        if strip(ch.tag) == 'properties':
            for p in ch:
                props.setdefault(strip(p.tag), set()).add(p.text or '')
        elif strip(ch.tag) == 'attachments':
            for a in ch:
                d = atts.setdefault(strip(a.tag), {})
                i = a.get('id')
                if i in d:
                    d[i] = [d[i], a.text or ''] if not isinstance(d[i], list) else d[i] + [a.text or '']
                else:
                    d[i] = a.text or ''
    parents = el.get('parents')
    foreign = {k: v for k, v in el.attrib.items() if k.startswith('{') and not k.startswith(NS)}
    return {'type': el.get('event-type'), 'source': el.get('source-uri'),
            'props': {k: sorted(v) for k, v in sorted(props.items())},
            'atts': {k: dict(sorted(v.items())) for k, v in sorted(atts.items())},
            'parents': sorted(parents.split(',')) if parents else [], 'foreign': dict(sorted(foreign.items()))}


def gen_op(rng, allow_copy=True):
    r = rng.random()
    p, v = rng.choice(PROPS), rng.choice(VALS)
    vs = rng.sample(VALS, rng.randint(0, 2))
    if r < 0.10:
        return ('setitem', p, vs)
    if r < 0.15:
        return ('delitem', p)
    if r < 0.25:
        return ('obj_add', p, v)
    if r < 0.30:
        return ('obj_remove', p, v)
    if r < 0.34:
        return ('obj_discard', p, v)
    if r < 0.37:
        return ('obj_pop', p)
    if r < 0.40:
        return ('obj_clear', p)
    if r < 0.45:
        via = rng.choice([None, None, 'copy_properties_from', 'move_properties_from'])
        return ('obj_update', p, vs, via) if via else ('obj_update', p, vs)
    if r < 0.49:
        return ('props_setitem', p, vs, 'object-set-of-another-event') if rng.random() < 0.4 else ('props_setitem', p, vs)
    if r < 0.52:
        return ('props_delitem', p)
    if r < 0.56:
        return ('set_properties', {q: rng.sample(VALS, rng.randint(0, 2)) for q in rng.sample(PROPS, rng.randint(0, 2))})
    a, i = rng.choice(ATTS), rng.choice(IDS)
    if r < 0.66:
        kind = rng.random()
        val = None if kind < 0.15 else rng.choice(['x', 'y']) if kind < 0.45 else rng.sample(['x', 'y', 'z'], rng.randint(1, 2)) if kind < 0.7 \
            else {j: rng.choice(['x', 'y']) for j in rng.sample(IDS, rng.randint(1, 2))}
        return ('set_attachment', a, val)
    if r < 0.72:
        return ('att_setvalue', a, i, rng.choice(['x', 'y', '']))
    if r < 0.76:
        return ('att_delvalue', a, i)
    if r < 0.79:
        return ('del_attachment', a)
    if r < 0.83:
        ps = rng.sample(PARENTS, rng.randint(0, 2))
        return ('set_parents', ps + ps[:1] if rng.random() < 0.3 else ps)          # now and then one hash twice in one call
    if r < 0.87:
        ps = rng.sample(PARENTS, rng.randint(0, 2))
        return ('add_parents', ps + ps[:1] if rng.random() < 0.3 else ps)
    if r < 0.89:
        return ('set_type', rng.choice(['ta', 'tb']))
    if r < 0.91:
        return ('set_source', rng.choice(['/s/', '/s2/']))
    if r < 0.94:
        return ('set_foreign', {k: rng.choice(['1', '2']) for k in rng.sample(FKEYS, rng.randint(0, 2))})
    if r < 0.97 and allow_copy:
        return ('copy',)
    return ('flush',)


def gen_init(rng):
    return {'type': 'ta', 'source': '/s/',
            'props': {p: rng.sample(VALS, rng.randint(0, 2)) for p in rng.sample(PROPS, rng.randint(0, 2))},
            'atts': {a: {i: rng.choice(['x', 'y']) for i in rng.sample(IDS, rng.randint(1, 2))} for a in rng.sample(ATTS, rng.randint(0, 2))},
            'parents': rng.sample(PARENTS, rng.randint(0, 2)),
            'foreign': {k: '1' for k in rng.sample(FKEYS, rng.randint(0, 1))}}
