"""Ontology definitions as plain dictionaries: an independent XML writer for them, loading into the SDK,
Coq terms of the generic node model (Onto/Tree.v), and a catalogue of edits (variations) per element kind."""
import copy, io
from xml.sax.saxutils import quoteattr
from common.core import C, coq, Raw, Z
from common import gen_doc as G

# attribute order is irrelevant; None = absent


def OT(name, dt='string:0:mc:u', **kw):
    d = {'name': name, 'display-name-singular': name, 'display-name-plural': name + 's', 'description': name, 'data-type': dt,
         'unit-name': None, 'unit-symbol': None, 'prefix-radix': None, 'xref': None, 'compress': False, 'fuzzy-matching': None,
         'regex-hard': None, 'regex-soft': None, 'version': 1}
    d.update(kw)
    return d


def CONCEPT(name, **kw):
    d = {'name': name, 'display-name-singular': name, 'display-name-plural': name + 's', 'description': name, 'version': 1}
    d.update(kw)
    return d


def SOURCE(uri, **kw):
    d = {'uri': uri, 'description': 'no description available', 'date-acquired': None, 'version': 1}
    d.update(kw)
    return d


def PROP(name, object_type, **kw):
    d = {'name': name, 'object-type': object_type, 'description': name, 'optional': False, 'multivalued': False, 'merge': 'any',
         'similar': '', 'confidence': 10, 'concepts': []}
    d.update(kw)
    return d


def PC(name, **kw):
    d = {'name': name, 'confidence': 10, 'cnp': 128, 'attr-extension': '', 'attr-display-name-singular': None, 'attr-display-name-plural': None}
    d.update(kw)
    return d


def REL(typ, source, target, **kw):
    d = {'type': typ, 'source': source, 'target': target, 'source-concept': None, 'target-concept': None,
         'description': '[[%s]] is related to [[%s]]' % (source, target), 'predicate': 'related to', 'confidence': 10}
    d.update(kw)
    return d


def ATT(name, **kw):
    d = {'name': name, 'media-type': 'text/plain', 'display-name-singular': name, 'display-name-plural': name + 's', 'description': name,
         'encoding': 'unicode'}
    d.update(kw)
    return d


def PARENT(event_type, property_map, **kw):
    d = {'event-type': event_type, 'property-map': property_map, 'parent-description': 'belonging to', 'siblings-description': 'sharing'}
    d.update(kw)
    return d


def ET(name, properties, **kw):
    d = {'name': name, 'display-name-singular': name, 'display-name-plural': name + 's', 'description': name,
         'summary': 'no description available', 'story': 'no description available', 'version': 1,
         'event-version': None, 'sequence': None, 'timespan-start': None, 'timespan-end': None,
         'parent': None, 'properties': properties, 'relations': [], 'attachments': []}
    d.update(kw)
    return d


def ONTO(object_types=(), concepts=(), event_types=(), sources=()):
    return {'object-types': list(object_types), 'concepts': list(concepts), 'event-types': list(event_types), 'sources': list(sources)}


# ---------------------------------------------------------------------------
def _attrs(pairs):
    out = ''
    for k, v in pairs:
        if v is None:
            continue
        if isinstance(v, bool):
            v = 'true' if v else 'false'
        out += ' %s=%s' % (k, quoteattr(str(v)))
    return out


def ot_xml(d):
    a = [(k, d[k]) for k in ('name', 'display-name-singular', 'display-name-plural', 'description', 'data-type', 'unit-name', 'unit-symbol',
                             'prefix-radix', 'xref', 'fuzzy-matching', 'regex-hard', 'regex-soft')]
    if d['compress']:
        a.append(('compress', True))
    a.append(('version', d['version']))
    return '<object-type%s/>' % _attrs(a)


def concept_xml(d):
    return '<concept%s/>' % _attrs([(k, d[k]) for k in ('name', 'display-name-singular', 'display-name-plural', 'description', 'version')])


def source_xml(d):
    return '<source%s/>' % _attrs([(k, d[k]) for k in ('uri', 'description', 'date-acquired', 'version')])


def pc_xml(d):
    a = [('name', d['name']), ('confidence', d['confidence']), ('cnp', d['cnp'])]
    if d['attr-extension']:
        a += [('attr-extension', d['attr-extension']), ('attr-display-name-singular', d['attr-display-name-singular']),
              ('attr-display-name-plural', d['attr-display-name-plural'])]
    return '<property-concept%s/>' % _attrs(a)


def prop_xml(d):
    a = [('name', d['name']), ('object-type', d['object-type']), ('description', d['description']), ('optional', bool(d['optional'])),
         ('multivalued', bool(d['multivalued']))]
    if d['merge'] != 'any':
        a.append(('merge', d['merge']))
    if d['similar']:
        a.append(('similar', d['similar']))
    a.append(('confidence', d['confidence']))
    if d['concepts']:
        return '<property%s>%s</property>' % (_attrs(a), ''.join(pc_xml(c) for c in d['concepts']))
    return '<property%s/>' % _attrs(a)


def rel_xml(d):
    a = [('source', d['source']), ('target', d['target'])]
    if d['type'] in ('inter', 'intra'):
        a += [('source-concept', d['source-concept']), ('target-concept', d['target-concept'])]
    if d['type'] in ('inter', 'intra', 'other'):
        a += [('description', d['description']), ('predicate', d['predicate']), ('confidence', d['confidence'])]
    return '<%s%s/>' % (d['type'], _attrs(a))


def att_xml(d):
    return '<attachment%s/>' % _attrs([(k, d[k]) for k in ('name', 'media-type', 'display-name-singular', 'display-name-plural', 'description', 'encoding')])


def et_xml(d):
    a = [(k, d[k]) for k in ('name', 'display-name-singular', 'display-name-plural', 'description', 'summary', 'story', 'version',
                             'event-version', 'sequence', 'timespan-start', 'timespan-end')]
    s = '<event-type%s>' % _attrs(a)
    if d['parent']:
        s += '<parent%s/>' % _attrs(list(d['parent'].items()))
    s += '<properties>%s</properties>' % ''.join(prop_xml(p) for p in d['properties'])
    if d['relations']:
        s += '<relations>%s</relations>' % ''.join(rel_xml(r) for r in d['relations'])
    if d['attachments']:
        s += '<attachments>%s</attachments>' % ''.join(att_xml(x) for x in d['attachments'])
    return s + '</event-type>'


def onto_xml(o):
    return ('<ontology><object-types>%s</object-types><concepts>%s</concepts><event-types>%s</event-types><sources>%s</sources></ontology>'
            % (''.join(ot_xml(x) for x in o['object-types']), ''.join(concept_xml(x) for x in o['concepts']),
               ''.join(et_xml(x) for x in o['event-types']), ''.join(source_xml(x) for x in o['sources'])))


def load(o, validate=True):
    """parse the ontology with the SDK (through a pull parser: schema validation + Ontology.update(element))"""
    from edxml import EDXMLPullParser
    p = EDXMLPullParser()
    p.parse(io.BytesIO(G.document([onto_xml(o)])))
    return p.get_ontology()


def load_element(o):
    """Ontology.update(lxml element) without the schema gate of the parser"""
    from lxml import etree
    from edxml.ontology import Ontology
    root = etree.fromstring(G.document([onto_xml(o)]))
    onto = Ontology()
    onto.update(root[0])
    return onto


# ---------------------------------------------------------------------------
# Coq terms of the node model
def aval(v):
    if v is None:
        return C('VNone')
    if isinstance(v, bool):
        return C('VBool', v)
    if isinstance(v, int):
        return C('VInt', Z(v))
    return C('VStr', str(v))


def node(version, attrs, groups=()):
    return C('Build_node', Raw('_'), Z(version), [(k, aval(v)) for k, v in attrs], [(g, kids) for g, kids in groups])


def ot_node(d):
    return node(d['version'], [(k, d[k]) for k in d if k not in ('name', 'version')])


def concept_node(d):
    return node(d['version'], [(k, d[k]) for k in d if k not in ('name', 'version')])


def source_node(d):
    return node(d['version'], [(k, d[k]) for k in d if k not in ('uri', 'version')])


def pc_node(d, version):
    return node(version, [(k, d[k]) for k in d if k != 'name'])


def leaf1(version, attrs):
    """a T1 node without children (parent / relation / attachment)"""
    return node(version, attrs, [])


def parent_attrs(d):
    """attributes of a parent definition as the comparison reads them: the property map is a MAPPING (EventTypeParent.get_property_map
    builds a dictionary), so its entries are given in canonical order"""
    out = []
    for k, v in d.items():
        if k == 'property-map' and isinstance(v, str):
            v = ','.join(sorted(v.split(',')))
        out.append((k, v))
    return out


def prop_node(d, version, onto=None):
    attrs = [(k, d[k]) for k in d if k not in ('name', 'concepts')]
    if onto is not None:
        dt = {x['name']: x['data-type'] for x in onto['object-types']}.get(d['object-type'], '')
        attrs.append(('is-datetime', dt.split(':')[0] == 'datetime'))
    return node(version, attrs, [('concepts', [(c['name'], pc_node(c, version)) for c in d['concepts']])])


def rel_key(et_name, r):
    return '%s:%s:%s,%s' % (et_name, r['type'], r['source'], r['target'])


def et_node(d, onto=None):
    v = d['version']
    attrs = [(k, d[k]) for k in d if k not in ('name', 'version', 'parent', 'properties', 'relations', 'attachments')]
    groups = [('parent', [('parent', leaf1(v, parent_attrs(d['parent'])))] if d['parent'] else []),
              ('properties', [(p['name'], prop_node(p, v, onto)) for p in d['properties']]),
              ('relations', [(rel_key(d['name'], r), leaf1(v, [(k, r[k]) for k in r])) for r in d['relations']]),
              ('attachments', [(a['name'], leaf1(v, [(k, a[k]) for k in a if k != 'name'])) for a in d['attachments']])]
    return node(v, attrs, groups)


# ---------------------------------------------------------------------------
def base_ontology():
    return ONTO(
        object_types=[OT('o'), OT('n', 'number:int:signed'), OT('d', 'datetime'), OT('e', 'enum:a:b'), OT('s', 'sequence'),
                      OT('g', **{'regex-hard': '[a-z]+'})],
        concepts=[CONCEPT('c'), CONCEPT('c.x')],
        event_types=[
            ET('parent', [PROP('k', 'o', merge='match')]),
            ET('ta', [PROP('p', 'o', merge='match', concepts=[PC('c.x', confidence=8, cnp=100)]),
                      PROP('q', 'n', optional=True, multivalued=True, merge='add', similar='similar q', concepts=[PC('c', confidence=5)]),
                      PROP('r', 'e', optional=True)],
               relations=[REL('inter', 'p', 'q', **{'source-concept': 'c.x', 'target-concept': 'c'}), REL('name', 'r', 'p')],
               attachments=[ATT('doc')],
               parent=PARENT('parent', 'p:k'))],
        sources=[SOURCE('/s/', **{'date-acquired': '20200101'})])


def two_entry_parent(order):
    """the base ontology whose parent event type has a second hashed property; order: the property map as written"""
    b = base_ontology()
    par = next(e for e in b['event-types'] if e['name'] == 'parent')
    par['properties'].append(PROP('k2', 'e', merge='match'))
    _et(b)['parent']['property-map'] = order
    return b


def OTfix(d):
    return d


# edits: (kind, path-description, function applied to a deep copy of the ontology)
def _et(o, name='ta'):
    return next(e for e in o['event-types'] if e['name'] == name)


def _prop(o, p, et='ta'):
    return next(x for x in _et(o, et)['properties'] if x['name'] == p)


def _ot(o, name):
    return next(x for x in o['object-types'] if x['name'] == name)


def setter(getter, key, value):
    def f(o):
        getter(o)[key] = value
    return f


def edit_catalogue():
    E = []
    ot = lambda n: (lambda o: _ot(o, n))
    for k, v in [('display-name-singular', 'other'), ('display-name-plural', 'others'), ('description', 'other description'),
                 ('xref', 'http://x/'), ('compress', True), ('fuzzy-matching', 'phonetic'), ('regex-soft', '[a-z]'),
                 ('regex-hard', '[a-z]+'), ('data-type', 'string:10:mc:u')]:
        E.append(('object-type', 'o.' + k, setter(ot('o'), k, v)))
    for k in ('xref', 'regex-soft', 'regex-hard', 'fuzzy-matching'):
        E.append(('object-type', 'o.%s=empty' % k, setter(ot('o'), k, '')))
    E.append(('object-type', 'o.regex-hard=x|y', setter(ot('o'), 'regex-hard', '[a-z]+|[0-9]+')))
    E.append(('object-type', 'o.regex-hard=zx|y', setter(ot('o'), 'regex-hard', 'z[a-z]+|[0-9]+')))
    E.append(('object-type', 'g.regex-hard=x|y', setter(ot('g'), 'regex-hard', '[a-z]+|[0-9]+')))
    E.append(('object-type', 'g.regex-hard=zx|y', setter(ot('g'), 'regex-hard', '[0-9][a-z]+|[A-Z]+')))
    E.append(('object-type', 'g.regex-hard=other', setter(ot('g'), 'regex-hard', '[0-9]+')))
    E.append(('object-type', 'g.regex-hard=none', setter(ot('g'), 'regex-hard', None)))
    E.append(('object-type', 'n.unit', lambda o: _ot(o, 'n').update({'unit-name': 'meter', 'unit-symbol': 'm'})))
    E.append(('object-type', 'e.enum+c', setter(ot('e'), 'data-type', 'enum:a:b:c')))
    E.append(('object-type', 'e.enum+c+d', setter(ot('e'), 'data-type', 'enum:a:b:c:d')))
    E.append(('object-type', 'e.enum-prefix', setter(ot('e'), 'data-type', 'enum:a:bc:d')))
    E.append(('object-type', 'o.regex-hard=x|y|z', setter(ot('o'), 'regex-hard', '[a-z]+|[0-9]+|[A-Z]+')))
    E.append(('object-type', 'o.description-case', setter(ot('o'), 'description', 'O')))
    E.append(('object-type', 'e.enum-b', setter(ot('e'), 'data-type', 'enum:a')))
    E.append(('object-type', 'e.enum-other', setter(ot('e'), 'data-type', 'enum:x:y:z')))
    for k, v in [('display-name-singular', 'cc'), ('display-name-plural', 'ccs'), ('description', 'another')]:
        E.append(('concept', 'c.' + k, setter(lambda o: o['concepts'][0], k, v)))
    for k, v in [('description', 'another source'), ('date-acquired', '20210101'), ('date-acquired', None)]:
        E.append(('source', '/s/.' + k + str(v), setter(lambda o: o['sources'][0], k, v)))
    for k, v in [('display-name-singular', 'tee'), ('display-name-plural', 'tees'), ('description', 'other'), ('summary', 'summary [[p]]'),
                 ('story', 'story [[p]]')]:
        E.append(('event-type', 'ta.' + k, setter(_et, k, v)))
    E.append(('event-type', 'ta.+version-property', lambda o: (_et(o)['properties'].append(PROP('v', 's', merge='max')), _et(o).update({'event-version': 'v'}))))
    E.append(('event-type', 'ta.+sequence', lambda o: (_et(o)['properties'].append(PROP('v', 's')), _et(o).update({'sequence': 'v'}))))
    E.append(('event-type', 'ta.+optional-property', lambda o: _et(o)['properties'].append(PROP('z', 'o', optional=True))))
    E.append(('event-type', 'ta.+mandatory-property', lambda o: _et(o)['properties'].append(PROP('z', 'o'))))
    E.append(('event-type', 'ta.+optional-datetime-property', lambda o: _et(o)['properties'].append(PROP('z', 'd', optional=True))))
    E.append(('event-type', 'ta.-property', lambda o: _et(o)['properties'].pop()))
    # several sub-elements changed at once: one acceptable, one not (either order)
    E.append(('event-type', 'ta.+optional+mandatory-property', lambda o: _et(o)['properties'].extend([PROP('y', 'o', optional=True), PROP('z', 'o')])))
    E.append(('event-type', 'ta.+mandatory+optional-property', lambda o: _et(o)['properties'].extend([PROP('y', 'o'), PROP('z', 'o', optional=True)])))
    E.append(('event-type', 'ta.-property+optional-property', lambda o: (_et(o)['properties'].pop(), _et(o)['properties'].append(PROP('z', 'o', optional=True)))))
    E.append(('event-type', 'ta.+two-optional-properties', lambda o: _et(o)['properties'].extend([PROP('y', 'o', optional=True), PROP('z', 'n', optional=True)])))
    E.append(('event-type', 'ta.+relation', lambda o: _et(o)['relations'].append(REL('other', 'q', 'r'))))
    E.append(('event-type', 'ta.-relation', lambda o: _et(o)['relations'].pop()))
    E.append(('event-type', 'ta.+attachment', lambda o: _et(o)['attachments'].append(ATT('doc2'))))
    E.append(('event-type', 'ta.-attachment', lambda o: _et(o)['attachments'].pop()))
    E.append(('event-type', 'ta.-parent', lambda o: _et(o).update({'parent': None})))
    for k, v in [('description', 'other'), ('similar', 'hint'), ('confidence', 5), ('optional', True), ('multivalued', True),
                 ('merge', 'any'), ('object-type', 'd')]:
        E.append(('property', 'ta.p.' + k, setter(lambda o: _prop(o, 'p'), k, v)))
    E.append(('property', 'ta.q.single', setter(lambda o: _prop(o, 'q'), 'multivalued', False)))
    E.append(('property', 'ta.q.mandatory', setter(lambda o: _prop(o, 'q'), 'optional', False)))
    E.append(('property', 'ta.r.+concept', lambda o: _prop(o, 'r')['concepts'].append(PC('c'))))
    E.append(('property', 'ta.q.-concept', lambda o: _prop(o, 'q')['concepts'].pop()))
    for k, v in [('confidence', 3), ('cnp', 10)]:
        E.append(('association', 'ta.q.c.' + k, setter(lambda o: _prop(o, 'q')['concepts'][0], k, v)))
    E.append(('association', 'ta.q.c.extension', lambda o: _prop(o, 'q')['concepts'][0].update(
        {'attr-extension': 'ext', 'attr-display-name-singular': 'ext name', 'attr-display-name-plural': 'ext names'})))
    for k, v in [('description', '[[p]] knows [[q]]'), ('predicate', 'knows'), ('predicate', 'Related To'), ('confidence', 4), ('target-concept', 'c.x')]:
        E.append(('relation', 'ta.inter.%s=%s' % (k, v), setter(lambda o: _et(o)['relations'][0], k, v)))
    for k, v in [('description', 'the doc'), ('display-name-singular', 'document'), ('display-name-plural', 'documents'),
                 ('media-type', 'text/html'), ('media-type', 'Text/Plain'), ('encoding', 'base64'), ('description', 'DOC')]:
        E.append(('attachment', 'ta.doc.%s=%s' % (k, v), setter(lambda o: _et(o)['attachments'][0], k, v)))
    # shared compound edits of one property: an acceptable change together with a forbidden one
    E.append(('property', 'ta.p.optional+object-type', lambda o: _prop(o, 'p').update({'optional': True, 'object-type': 'g'})))
    E.append(('property', 'ta.p.optional+merge', lambda o: _prop(o, 'p').update({'optional': True, 'merge': 'any'})))
    E.append(('property', 'ta.q.description+single', lambda o: _prop(o, 'q').update({'description': 'other', 'multivalued': False})))
    # an attachment replaced by another one (as many as before, but one is gone)
    E.append(('event-type', 'ta.attachment-renamed', lambda o: (_et(o)['attachments'].pop(), _et(o)['attachments'].append(ATT('doc9')))))
    for k, v in [('parent-description', 'owned by'), ('siblings-description', 'next to'), ('property-map', 'q:k')]:
        E.append(('parent', 'ta.parent.' + k, setter(lambda o: _et(o)['parent'], k, v)))
    return E


def apply_edits(base, edits, bump=None):
    """bump: None or the new version number for every element touched (kinds in `edits`)"""
    o = copy.deepcopy(base)
    for kind, name, f in edits:
        f(o)
        if bump is not None:
            if kind == 'object-type':
                _ot(o, name.split('.')[0])['version'] = bump
            elif kind == 'concept':
                o['concepts'][0]['version'] = bump
            elif kind == 'source':
                o['sources'][0]['version'] = bump
            else:
                _et(o)['version'] = bump
    return o


# ---------------------------------------------------------------------------
def _tag(el):
    return el.tag.split('}')[1] if el.tag.startswith('{') else el.tag


def from_xml(root):
    """read an <ontology> element (as produced by Ontology.generate_xml) back into a definition dictionary"""
    o = ONTO()
    g = lambda el, k, d=None: el.get(k, d)
    for sec in root:
        t = _tag(sec)
        for el in sec:
            if t == 'object-types':
                o['object-types'].append({
                    'name': g(el, 'name'), 'display-name-singular': g(el, 'display-name-singular'), 'display-name-plural': g(el, 'display-name-plural'),
                    'description': g(el, 'description'), 'data-type': g(el, 'data-type'), 'unit-name': g(el, 'unit-name'),
                    'unit-symbol': g(el, 'unit-symbol'), 'prefix-radix': int(g(el, 'prefix-radix')) if g(el, 'prefix-radix') else None,
                    'xref': g(el, 'xref'), 'compress': g(el, 'compress', 'false') == 'true', 'fuzzy-matching': g(el, 'fuzzy-matching'),
                    'regex-hard': g(el, 'regex-hard'), 'regex-soft': g(el, 'regex-soft'), 'version': int(g(el, 'version'))})
            elif t == 'concepts':
                o['concepts'].append({'name': g(el, 'name'), 'display-name-singular': g(el, 'display-name-singular'),
                                      'display-name-plural': g(el, 'display-name-plural'), 'description': g(el, 'description'),
                                      'version': int(g(el, 'version'))})
            elif t == 'sources':
                o['sources'].append({'uri': g(el, 'uri'), 'description': g(el, 'description'), 'date-acquired': g(el, 'date-acquired'),
                                     'version': int(g(el, 'version'))})
            elif t == 'event-types':
                et = ET(g(el, 'name'), [])
                for k in ('display-name-singular', 'display-name-plural', 'description', 'summary', 'story', 'event-version', 'sequence',
                          'timespan-start', 'timespan-end'):
                    et[k] = g(el, k)
                et['version'] = int(g(el, 'version'))
                for sub in el:
                    st = _tag(sub)
                    if st == 'parent':
                        et['parent'] = {k: sub.get(k) for k in ('event-type', 'property-map', 'parent-description', 'siblings-description')}
                    elif st == 'properties':
                        for p in sub:
                            et['properties'].append({
                                'name': g(p, 'name'), 'object-type': g(p, 'object-type'), 'description': g(p, 'description'),
                                'optional': g(p, 'optional') == 'true', 'multivalued': g(p, 'multivalued') == 'true',
                                'merge': g(p, 'merge', 'any'), 'similar': g(p, 'similar', ''), 'confidence': int(g(p, 'confidence')),
                                'concepts': [{'name': g(c, 'name'), 'confidence': int(g(c, 'confidence')), 'cnp': int(g(c, 'cnp', '128')),
                                              'attr-extension': g(c, 'attr-extension', ''),
                                              'attr-display-name-singular': g(c, 'attr-display-name-singular'),
                                              'attr-display-name-plural': g(c, 'attr-display-name-plural')} for c in p]})
                    elif st == 'relations':
                        for r in sub:
                            typ = _tag(r)
                            full = typ in ('inter', 'intra', 'other')
                            et['relations'].append({
                                'type': typ, 'source': g(r, 'source'), 'target': g(r, 'target'),
                                'source-concept': g(r, 'source-concept'), 'target-concept': g(r, 'target-concept'),
                                'description': g(r, 'description') if full else None, 'predicate': g(r, 'predicate') if full else None,
                                'confidence': int(g(r, 'confidence')) if full and g(r, 'confidence') else None})
                    elif st == 'attachments':
                        for a in sub:
                            et['attachments'].append({k: a.get(k) for k in ('name', 'media-type', 'display-name-singular', 'display-name-plural',
                                                                            'description', 'encoding')})
                o['event-types'].append(et)
    return o


def norm_rel(r):
    """relations of the simple types carry no description / predicate / confidence"""
    if r['type'] in ('inter', 'intra', 'other'):
        return r
    return dict(r, description=None, predicate=None, confidence=None)


def onto_term(o):
    o = copy.deepcopy(o)
    for et in o['event-types']:
        et['relations'] = [norm_rel(r) for r in et['relations']]
    return C('Build_onto', [(x['name'], ot_node(x)) for x in o['object-types']], [(x['name'], concept_node(x)) for x in o['concepts']],
             [(x['uri'], source_node(x)) for x in o['sources']], [(x['name'], et_node(x, o)) for x in o['event-types']])
