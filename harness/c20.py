"""C20 — concept mining terminates with well-formed, covering, serializable results."""
import copy, io, json, math, signal, sys
from common.core import Check, C, Z, Nat, coq, run_cases, Raw, Some
from common import gen_doc as G
import ontolib as OL

PID = 'C20'
ANCHORS = ['edxml/miner/miner.py', 'edxml/miner/graph/graph.py', 'edxml/miner/graph/construct.py', 'edxml/miner/node.py', 'edxml/miner/inference.py',
           'edxml/miner/result.py', 'edxml/miner/knowledge.py', 'edxml/miner/parser.py', 'edxml/cli/edxml_mine.py']
IMPORTS = 'From EdxmlVerif Require Import Base.Prelude Miner.Reason.'


class Hang(Exception):
    pass


def _alarm(signum, frame):
    raise Hang()


def gen_ontology(rng):
    """event types whose properties are associated with concepts (specialised names, confidences 0..10, attribute extensions),
    intra / inter relations and universals relations"""
    concepts = ['ca', 'ca.x', 'cb'][:rng.randint(1, 3)]
    ots = [OL.OT('o%d' % i, 'string:10:mc') for i in range(5)] + [OL.OT('time', 'datetime')]
    ets = []
    for t in range(rng.randint(1, 2)):
        props = []
        n = rng.randint(2, 5)
        for i in range(n):
            k = rng.randint(0, 2)
            pcs = []
            for c in rng.sample(concepts, min(len(concepts), rng.choice([0, 1, 1, 1, 2]))):
                pc = OL.PC(c, confidence=rng.choice([0, 1, 3, 5, 7, 9, 10]), cnp=rng.choice([0, 128, 255]))
                if rng.random() < 0.3:
                    pc.update({'attr-extension': 'ext%d' % i, 'attr-display-name-singular': 'ext', 'attr-display-name-plural': 'exts'})
                pcs.append(pc)
            props.append(OL.PROP('p%d' % i, 'o%d' % rng.randrange(5), optional=True, multivalued=rng.random() < 0.5, merge='match' if i == 0 else 'any', concepts=pcs))
        timed = rng.random() < 0.5
        if timed:
            props.append(OL.PROP('t0', 'time', optional=True, merge='any'))
            if rng.random() < 0.5:
                props.append(OL.PROP('t1', 'time', optional=True, merge='any'))
        with_c = [p for p in props if p['concepts']]
        rels = []
        single = [p for p in props if not p['multivalued']]
        for _ in range(rng.randint(0, 4)):
            if len(with_c) < 2:
                break
            a, b = rng.sample(with_c, 2)
            typ = rng.choice(['intra', 'intra', 'inter'])
            if any(r['type'] == typ and r['source'] == a['name'] and r['target'] == b['name'] for r in rels):
                continue
            rels.append(OL.REL(typ, a['name'], b['name'], confidence=rng.choice([1, 2, 5, 6, 9, 10]),
                               **{'source-concept': rng.choice(a['concepts'])['name'], 'target-concept': rng.choice(b['concepts'])['name']}))
        for typ in rng.sample(['name', 'description', 'container'], rng.randint(0, 3)):
            # one or two relations of the type (over different property pairs)
            for _ in range(rng.choice([1, 1, 2])):
                if len(single) >= 2:
                    a, b = rng.sample(single, 2)
                    if not any(r['type'] == typ and r['source'] == a['name'] and r['target'] == b['name'] for r in rels):
                        rels.append(OL.REL(typ, a['name'], b['name']))
        kw = {}
        if timed:
            kw['timespan-start'] = 't0'
            if any(p['name'] == 't1' for p in props):
                kw['timespan-end'] = 't1'
        ets.append(OL.ET('e%d' % t, props, relations=rels, **kw))
    return OL.ONTO(object_types=ots, concepts=[OL.CONCEPT(c) for c in concepts], event_types=ets, sources=[OL.SOURCE('/s/')])


def gen_events(rng, onto, n):
    evs = []
    values = ['v%d' % i for i in range(6)]
    for _ in range(n):
        et = rng.choice(onto['event-types'])
        props = []
        for p in et['properties']:
            if p['object-type'] == 'time':
                if rng.random() < 0.6:
                    props.append((p['name'], '20%02d-01-0%dT00:00:00.000000Z' % (rng.randint(10, 30), rng.randint(1, 9))))
                continue
            if p['name'] == 'p0' or rng.random() < 0.7:
                k = rng.randint(1, 2) if p['multivalued'] else 1
                for v in rng.sample(values, k):
                    props.append((p['name'], v))
        evs.append((et['name'], props))
    return evs


def universals_expected(onto, evs):
    """(relation type, target object type, target value, source object type, source value) present in the events"""
    out = set()
    ets = {e['name']: e for e in onto['event-types']}
    for tname, props in evs:
        et = ets[tname]
        ptype = {p['name']: p['object-type'] for p in et['properties']}
        vals = {}
        for k, v in props:
            vals.setdefault(k, set()).add(v)
        for r in et['relations']:
            if r['type'] in ('name', 'description', 'container'):
                for tv in vals.get(r['target'], ()):
                    for sv in vals.get(r['source'], ()):
                        out.add((r['type'], ptype[r['target']], tv, ptype[r['source']], sv))
    return out


def in_unit(x):
    return isinstance(x, (int, float)) and not math.isnan(x) and -1e-12 <= x <= 1 + 1e-12


def check_knowledge(ck, kb, miner, inp, min_conf, seeded, expected_objects=None):
    """the property on one mined knowledge base"""
    def fail(sig, observed):
        ck.oracle_failures.append({'signature': sig, 'input': inp, 'observed': observed})
        return False
    graph = miner._graph
    from edxml.miner.node import EventObjectNode
    nodes = [n for n in graph._nodes.values() if isinstance(n, EventObjectNode)]
    for n in nodes:
        if not in_unit(n.taint):
            return fail('out-of-range/node-taint', 'taint %r of node %s' % (n.taint, n.id))
        for sid, c in n.seed_confidences.items():
            if not in_unit(c):
                return fail('out-of-range/seed-confidence', 'confidence %r of node %s for seed %s' % (c, n.id, sid))
    coll = kb.concept_collection
    covered = set()
    for cid, inst in coll.concepts.items():
        try:
            seed = inst.get_seed()
        except Exception as e:
            return fail('instance-without-seed', '%s: %s' % (cid, e))
        if abs(seed.seed_confidences.get(cid, 0) - 1.0) > 1e-12:
            return fail('seed-confidence-not-one', '%s: %r' % (cid, seed.seed_confidences.get(cid)))
        for a in inst.attributes:
            if not in_unit(a.confidence):
                return fail('out-of-range/attribute-confidence', '%s %s=%s: %r' % (cid, a.name, a.value, a.confidence))
            if a.confidence < min_conf - 1e-12:
                return fail('attribute-below-minimum-confidence', '%s %s=%s: %r < %r' % (cid, a.name, a.value, a.confidence, min_conf))
            for name, c in a.concept_names.items():
                if not in_unit(c):
                    return fail('out-of-range/concept-name-confidence', '%s %s: %r' % (cid, name, c))
            for item in a.confidence_timeline:
                if not in_unit(item[2]):
                    return fail('out-of-range/timeline-confidence', repr(item))
            covered.update(a.nodes.keys())
        for rid, c in inst.get_related_concepts().items():
            if not in_unit(c):
                return fail('out-of-range/related-concept-confidence', '%s -> %s: %r' % (cid, rid, c))
    if not seeded:
        missing = [n.id for n in nodes if n.id not in covered]
        if missing:
            return fail('event-object-in-no-instance', 'not covered: %s' % missing[:3])
        # the same, stated on the events: every object of a property that is associated with a concept shows up
        # as an attribute value of some concept instance (whether or not the other end of its relations is present)
        have = {(a.object_type_name, a.value) for inst in coll.concepts.values() for a in inst.attributes}
        lost = sorted(set(expected_objects or ()) - have)
        if lost and min_conf <= 0.1:
            return fail('event-object-in-no-instance/by-events', 'objects of concept properties without any concept attribute: %s' % lost[:3])
    return True


def run_one(ck, rng, terms, metas):
    from edxml.miner.knowledge import KnowledgeBase
    from edxml.miner.parser import KnowledgePullParser
    onto = gen_ontology(rng)
    try:
        OL.load(onto)
    except Exception:
        ck.dist('ontology:not-valid')
        return
    evs = gen_events(rng, onto, rng.randint(1, 8))
    rng.shuffle(evs)
    children = [OL.onto_xml(onto)] + [G.event_xml(t, '/s/', p) for t, p in evs]
    evs_by_onto = [(onto, evs)]
    if rng.random() < 0.4:
        # a later ontology element upgrades an event type: one more name / description / container relation; more events follow
        import copy as _copy
        up = _copy.deepcopy(onto)
        et = rng.choice(up['event-types'])
        single = [p for p in et['properties'] if not p['multivalued'] and p['object-type'] != 'time']
        free = [t for t in ('name', 'description', 'container') if not any(r['type'] == t for r in et['relations'])]
        if len(single) >= 2 and free:
            a, b = rng.sample(single, 2)
            et['relations'].append(OL.REL(rng.choice(free), a['name'], b['name']))
            et['version'] = 2
            try:
                OL.load(up)
                evs2 = gen_events(rng, up, rng.randint(1, 5))
                children += [OL.onto_xml(up)] + [G.event_xml(t, '/s/', p) for t, p in evs2]
                evs_by_onto.append((up, evs2))
                ck.dist('ontology-upgraded-mid-stream')
            except Exception:
                pass
    doc = G.document(children)
    min_conf = rng.choice([0.1, 0.1, 0.05, 0.01, 0.3, 0.6, 0.001])
    max_depth = rng.choice([10, 10, 1, 2, 3, 50])
    inp = {'document': doc.decode('utf-8'), 'min_confidence': min_conf, 'max_depth': max_depth}
    kb = KnowledgeBase()
    p = KnowledgePullParser(kb)
    old = signal.signal(signal.SIGALRM, _alarm)
    signal.alarm(20)
    try:
        p.parse(io.BytesIO(doc))
        p.miner.mine(min_confidence=min_conf, max_depth=max_depth)
    except Hang:
        ck.oracle_failures.append({'signature': 'mining-does-not-terminate', 'input': inp, 'observed': 'no result within 20 s'})
        return
    except Exception as e:
        ck.oracle_failures.append({'signature': 'mining-raises/%s' % type(e).__name__, 'input': inp, 'observed': str(e)[:200]})
        return
    finally:
        signal.alarm(0)
        signal.signal(signal.SIGALRM, old)
    ck.cov['evaluations'] += 1
    ck.dist('concepts:%d' % min(len(kb.concept_collection.concepts), 6))
    try:
        expected_objects = set()
        for o_, evs_ in evs_by_onto:
            ets_ = {e['name']: e for e in o_['event-types']}
            for tname, props in evs_:
                for k, v in props:
                    pr = next(x for x in ets_[tname]['properties'] if x['name'] == k)
                    if pr['concepts']:
                        expected_objects.add((pr['object-type'], v))
        if not check_knowledge(ck, kb, p.miner, inp, min_conf, seeded=False, expected_objects=expected_objects):
            return
    except Exception as e:
        ck.oracle_failures.append({'signature': 'reading-the-result-raises/%s' % type(e).__name__, 'input': inp, 'observed': '%s: %s' % (type(e).__name__, str(e)[:200])})
        return
    # universals: exactly the pairs present in the events
    want = set()
    for o_, evs_ in evs_by_onto:
        want |= universals_expected(o_, evs_)
    try:
        j1 = kb.to_json()
    except Exception as e:
        ck.oracle_failures.append({'signature': 'to-json-raises/%s' % type(e).__name__, 'input': inp, 'observed': str(e)[:200]})
        return
    d1 = json.loads(j1)
    got = set()
    for typ, key in (('name', 'names'), ('description', 'descriptions'), ('container', 'containers')):
        for ot, vals in d1['universals'][key].items():
            for v, targets in vals.items():
                for sot, svals in targets.items():
                    for sv in svals:
                        got.add((typ, ot, v, sot, sv))
    if got != want:
        ck.oracle_failures.append({'signature': 'universals-differ', 'input': inp, 'observed': 'missing %s, extra %s' % (sorted(want - got)[:3], sorted(got - want)[:3])})
        return
    for typ, ot, v, sot, sv in sorted(want)[:5]:
        getter = {'name': kb.get_names_for, 'description': kb.get_descriptions_for, 'container': kb.get_containers_for}[typ]
        if sv not in getter(ot, v).get(sot, ()):
            ck.oracle_failures.append({'signature': 'universals-getter-differs', 'input': inp, 'observed': repr((typ, ot, v, sot, sv))})
            return
    # JSON round trip (lists that come from sets are compared as sets)
    def canon(x):
        if isinstance(x, dict):
            return {k: canon(v) for k, v in x.items()}
        if isinstance(x, list):
            return sorted((canon(v) for v in x), key=lambda v: json.dumps(v, sort_keys=True))
        return x
    try:
        kb2 = KnowledgeBase.from_json(j1)
        j2 = kb2.to_json()
        j3 = KnowledgeBase.from_json(j2).to_json()
    except Exception as e:
        ck.oracle_failures.append({'signature': 'json-round-trip-raises/%s' % type(e).__name__, 'input': inp, 'observed': str(e)[:200]})
        return
    if canon(json.loads(j1)) != canon(json.loads(j2)) or canon(json.loads(j2)) != canon(json.loads(j3)):
        a, b = canon(json.loads(j1)), canon(json.loads(j2))
        where = next((k for k in a if a[k] != b.get(k)), '?')
        if where == 'concepts':
            strip = lambda cs: [{k: v for k, v in c.items() if k != 'title'} for c in cs]
            if strip(a['concepts']) == strip(b['concepts']) and canon(json.loads(j2)) == canon(json.loads(j3)):
                where = 'title'
        ck.oracle_failures.append({'signature': 'json-round-trip-changes-knowledge-base/%s' % where, 'input': inp,
                                   'observed': 'to_json(from_json(x)) differs from x in %s: %s vs %s' % (where, json.dumps(a.get(where))[:300], json.dumps(b.get(where))[:300])})
        return
    ck.cov['distinct_nontrivial'] += 1
    collect_reasoning_cases(p.miner, min_conf, max_depth, terms, metas, inp)


def qterm(x):
    n, d = float(x).as_integer_ratio()
    return Raw('(%d # %d)' % (n, d))


def collect_reasoning_cases(miner, min_conf, max_depth, terms, metas, inp):
    """re-run the seedless mining on the same graph with the seeds logged; hand the model the confidences each seed assigned"""
    from edxml.miner.node import EventObjectNode
    graph = miner._graph
    order = []
    orig = graph._set_seed

    def logged(seed, **kw):
        order.append(seed.id)
        return orig(seed, **kw)
    graph._set_seed = logged
    try:
        graph.mine(None, min_confidence=min_conf, max_depth=max_depth)
    finally:
        del graph._set_seed
    nodes = [n for n in graph._nodes.values() if isinstance(n, EventObjectNode)]
    index = {n.id: i for i, n in enumerate(nodes)}
    if len(nodes) > 25 or not nodes:
        return
    seeds = [index[s] for s in order]
    assigned = []
    for s_id in order:
        assigned.append((Nat(index[s_id]), [(Nat(index[n.id]), qterm(n.seed_confidences[s_id])) for n in nodes if s_id in n.seed_confidences and n.id != s_id]))
    fresh = [C('Build_mnode', qterm(n.concept_association.get_confidence()), Raw('0'), []) for n in nodes]
    terms.append(coq((fresh, assigned, ([Nat(x) for x in seeds], [qterm(n.taint) for n in nodes]))))
    metas.append({'document': inp['document'][:4000], 'seeds': order, 'min_confidence': min_conf, 'max_depth': max_depth})


def replay(path):
    obj = json.load(open(path))
    if obj.get('kind') != 'failing-input':
        print('replay names a broken obligation:', obj.get('obligation'))
        return 0
    print(json.dumps(obj['input'], ensure_ascii=False)[:2500])
    print('observed at check time:', obj.get('observed'))
    return 1


def main(argv):
    import logging
    logging.disable(logging.CRITICAL)
    if len(argv) > 1 and argv[0] == '--replay':
        return replay(argv[1])
    ck = Check(PID, ANCHORS)
    from translate import c20 as T1
    f, notes, _ = T1.generate()
    for nt in notes:
        ck.obligation_failures.append(('T1:source-formulas', nt))
    ck.prove()
    rng = ck.rng
    terms, metas = [], []
    for i in range(ck.budget(300, 4000)):
        run_one(ck, rng, terms, metas)
    agree = ('fun c => match c with (nodes, assigned, obs) => '
             'let reason := fun (s : nat) (_ : list mnode) => match find (fun kv => Nat.eqb (fst kv) s) assigned with Some (_, l) => l | None => [] end in '
             'match auto_mine reason (length nodes) nodes [] with (final, order, ok) => '
             'ok && list_eqb Nat.eqb order (fst obs) && Nat.eqb (length final) (length (snd obs)) && '
             'forallb (fun p => Qclose (n_taint (fst p)) (snd p)) (combine final (snd obs)) end end')
    bad, errs = run_cases(PID, 'From Coq Require Import QArith.\n' + IMPORTS, 'list mnode * list (nat * list (nat * Q)) * (list nat * list Q)', terms, agree, shard=150)
    for i in bad[:10]:
        ck.corr_failures.append({'case': metas[i], 'model': 'seed order / taints of the seed loop differ'})
    for e in errs[:3]:
        ck.corr_failures.append({'coq_error': e})
    ck.cov['traces_validated_against_impl'] = len(terms)
    ck.cov['disagreements_checked'] = len(bad)
    ck.trusted += ['confidences are rationals in the model and binary floating point in the implementation: the range theorems are about the formulas over the rationals; '
                   'that IEEE rounding keeps 1.0 - prod(1.0 - c) within [0,1] is checked by the oracle on every mined result',
                   'the Dijkstra style reasoning from one seed is a parameter of the loop model; in the correspondence it is fed with the confidences the implementation assigned',
                   'harness/translate/c20.py: extraction of the formulas and of the cut-off forwarding from the source ast']
    ck.assumptions += ['the termination / coverage theorems hold for every reasoning function; that the real one returns (its own termination) is covered by the watchdog only']
    ck.cov['exhaustive'] = False
    ck.cov['rule'] = ('random ontologies (1-3 concepts with a specialised name, property-concept confidences 0..10, attribute extensions, intra / inter relations with confidences '
                      '1..10, name / description / container relations, optional time spans) and 1-8 events over a pool of six values (shared and disjoint), shuffled; mined without '
                      'seed at min_confidence in {0.001 .. 0.6} and max_depth in {1 .. 50} under a watchdog; every confidence range, seed membership, minimum confidence, coverage, '
                      'universals and the JSON round trip checked')
    return ck.finish()


if __name__ == '__main__':
    sys.exit(main(sys.argv[1:]))
