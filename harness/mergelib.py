"""Shared by C04/C05/C18: generation of event types and colliding event groups, running
EventType.merge_events on the implementation, the independent orderings, Coq terms."""
import hashlib, io
from decimal import Decimal
from fractions import Fraction
from common.core import C, coq, Raw, Z
from common import gen_doc as G

IMPORTS = 'From EdxmlVerif Require Import Base.Prelude Event.Merge.'

# data type -> (pool of valid, canonical values, independent ordering key)
POOLS = {
    'string:0:mc:u': (['a', 'b', 'c', 'B', 'ab'], lambda v: v),
    'number:int:signed': (['-5', '0', '3', '10', '200', '-10'], lambda v: int(v)),
    'number:tinyint': (['0', '3', '10', '200', '9'], lambda v: int(v)),
    'number:bigint:signed': (['-9000000000', '0', '7', '10', '9000000000'], lambda v: int(v)),
    'number:decimal:10:2:signed': (['-1.50', '0.00', '2.25', '10.00', '100.10', '9.99'], lambda v: Fraction(Decimal(v))),
    'number:decimal:30:20:signed': (['-0.10000000000000000001', '-0.10000000000000000003', '0.10000000000000000002',
                                     '-0.10000000000000000002', '123456789.00000000000000000001', '0.00000000000000000000'],
                                    lambda v: Fraction(Decimal(v))),
    'number:currency': (['1.0000', '-2.5000', '10.0000', '9.9999', '0.0001'], lambda v: Fraction(Decimal(v))),
    'number:float:signed': (['1.500000E+00', '-3.000000E+01', '1.5E+00', '9.999999E-01', '1.000000E+01', '15.000000E-01'], lambda v: Fraction(float(v))),
    'number:double:signed': (['1.500000000000000E+00', '-3.000000000000000E+01', '2.000000000000000E+100', '9.000000000000000E+00',
                       '1.000000000000000E+01'], lambda v: Fraction(float(v))),
    'datetime': (['2020-01-01T00:00:00.000000Z', '2019-12-31T23:59:59.999999Z', '2020-01-01T00:00:00.000001Z',
                  '1999-05-05T10:00:00.000000Z', '2020-10-01T00:00:00.000000Z'], lambda v: v),
    'sequence': (['1', '2', '3', '10', '33', '9'], lambda v: int(v)),
}
MINMAX_TYPES = [t for t in POOLS if t != 'string:0:mc:u']
# 'sequence:alt' is the data type `sequence` with a pool that holds several valid spellings of one number


def real_type(dt):
    return 'sequence' if dt == 'sequence:alt' else dt
MATCH_TYPES = [t for t in POOLS if not t.startswith(('number:float', 'number:double'))]
TYPE, SRC = 'ta', '/s/'


def family(dt):
    return ':'.join(real_type(dt).split(':')[:2])


def gen_etype(rng, force_version=None, add_multi=False, strategies=None, exclude_types=()):
    """returns list of property dicts + version property name or None"""
    props = []
    has_version = rng.random() < 0.5 if force_version is None else force_version
    n = rng.choice([1, 2, 3, 3, 4, 5])
    strategies = strategies or (['match', 'match', 'any', 'add', 'set', 'min', 'max'] + (['replace', 'replace'] if has_version else []))
    minmax = [t for t in MINMAX_TYPES if t not in exclude_types]
    anytypes = [t for t in POOLS if t not in exclude_types]
    matchtypes = [t for t in MATCH_TYPES if t not in exclude_types]
    for i in range(n):
        s = rng.choice(strategies)
        if s in ('min', 'max'):
            dt, multi, opt = rng.choice(minmax), False, False
        elif s == 'replace':
            dt, multi, opt = rng.choice(anytypes), False, rng.random() < 0.5
        elif s == 'match':
            dt, multi, opt = rng.choice(matchtypes), rng.random() < 0.5, rng.random() < 0.4
        else:
            dt, multi, opt = rng.choice(anytypes), rng.random() < 0.5, rng.random() < 0.5
        if s == 'add' and add_multi:
            multi = True       # the stream mergers write (and validate) their result
        props.append({'name': 'p%d' % i, 'object_type': 'o' + str(i), 'data_type': dt, 'merge': s, 'multivalued': multi, 'optional': opt})
    if has_version:
        props.append({'name': 'v', 'object_type': 'ov', 'data_type': 'sequence', 'merge': 'max', 'multivalued': False, 'optional': False})
    return {'props': props, 'version': 'v' if has_version else None}


def gen_group(rng, et, size=None, allow_conflict=True):
    """colliding events: hashed properties agree; returns list of event dicts"""
    size = size or rng.choice([1, 2, 2, 3, 3, 4, 5, 6])
    hashed_vals = {}
    for p in et['props']:
        if p['merge'] == 'match':
            pool = POOLS[p['data_type']][0]
            k = rng.randint(1, 3) if p['multivalued'] else 1
            if p['optional'] and rng.random() < 0.25:
                k = 0
            hashed_vals[p['name']] = rng.sample(pool, k)
    events = []
    small = rng.random() < 0.6   # small value domains make equal values / conflicts / duplicates likely
    for i in range(size):
        if events and rng.random() < 0.2:
            e = dict(rng.choice(events))
            e = {'props': {k: list(v) for k, v in e['props'].items()}, 'parents': list(e['parents']), 'tag': i + 1}
            if rng.random() < 0.5:
                # the same objects (and version), other explicit parents: no conflict, the parents are united
                e['parents'] = rng.sample([hashlib.sha1(b'parent%d' % j).hexdigest() for j in range(3)], rng.choice([0, 1, 2]))
            events.append(e)
            continue
        pr = {}
        for p in et['props']:
            pool = POOLS[p['data_type']][0]
            if small:
                pool = pool[:3]
            if p['merge'] == 'match':
                vs = list(hashed_vals[p['name']])
            else:
                k = rng.randint(1, 3) if p['multivalued'] else 1
                if p['optional'] and rng.random() < 0.35:
                    k = 0
                vs = rng.sample(pool, min(k, len(pool)))
            if vs:
                pr[p['name']] = vs
        parents = rng.sample([hashlib.sha1(b'parent%d' % j).hexdigest() for j in range(3)], rng.choice([0, 0, 1, 2]))
        events.append({'props': pr, 'parents': parents, 'tag': i + 1})
    if et['version'] and not allow_conflict:
        # distinct versions => no conflicts
        pool = POOLS['sequence'][0]
        vs = rng.sample(pool, min(len(pool), size))
        for e, v in zip(events, vs):
            e['props']['v'] = [v]
        events = events[:len(vs)]
    return events


def ontology_xml(et):
    ots = [(p['object_type'], real_type(p['data_type'])) for p in et['props']]
    etd = {'name': TYPE, 'properties': et['props'], 'attachments': [{'name': 'att'}]}
    if et['version']:
        etd['event-version'] = et['version']
    return G.ontology_xml(ots, [etd], [SRC])


def load_ontology(et):
    from edxml import EDXMLPullParser
    p = EDXMLPullParser()
    p.parse(io.BytesIO(G.document([ontology_xml(et)])))
    return p.get_ontology()


def make_events(et, group, rep):
    """rep: 'EDXMLEvent' | 'EventElement' | 'ParsedEvent'"""
    from edxml import EDXMLEvent, EventElement, EDXMLPullParser
    if rep == 'ParsedEvent':
        got = []

        class P(EDXMLPullParser):
            def _parsed_event(self, e):
                got.append(e)
        children = [ontology_xml(et)] + [
            G.event_xml(TYPE, SRC, [(n, v) for n, vs in e['props'].items() for v in vs],
                        [('att', 'i%d' % e['tag'], 'e%d' % e['tag'])], e['parents']) for e in group]
        P(validate=False).parse(io.BytesIO(G.document(children)))
        return got
    cls = EDXMLEvent if rep == 'EDXMLEvent' else EventElement
    return [cls({k: list(v) for k, v in e['props'].items()}, TYPE, SRC, list(e['parents']) or None,
                {'att': {'i%d' % e['tag']: 'e%d' % e['tag']}}) for e in group]


def observe_event(ev):
    atts = ev.get_attachments()
    tags = sorted(int(k[1:]) for k in atts.get('att', {}).keys())
    return {'props': {k: sorted(v) for k, v in ev.get_properties().items() if len(v)},
            'parents': sorted(ev.get_parent_hashes()), 'tag': tags[0] if len(tags) == 1 else -1,
            'type': ev.get_type_name(), 'source': ev.get_source_uri()}


def run_merge(onto, events):
    """returns ('ok', observed) | ('conflict', None) | ('exception', repr)"""
    from edxml.error import EDXMLMergeConflictError
    etype = onto.get_event_type(TYPE)
    try:
        m = etype.merge_events(list(events))
    except EDXMLMergeConflictError:
        return ('conflict', None, None)
    except Exception as e:
        return ('exception', type(e).__name__ + ': ' + str(e)[:200], None)
    return ('ok', observe_event(m), m)


def rank_tables(et):
    tbl = []
    for p in et['props']:
        pool, key = POOLS[p['data_type']]
        ks = sorted({(key(v), v) for v in pool})      # ties between spellings of one value are broken by the spelling
        tbl.append((p['name'], [(v, Z(ks.index((key(v), v)))) for v in pool]))
    return tbl


def et_term(et):
    smap = {'match': 'SMatch', 'any': 'SAny', 'add': 'SAdd', 'set': 'SSet', 'replace': 'SReplace', 'min': 'SMin', 'max': 'SMax'}
    strat = [(p['name'], C(smap[p['merge']])) for p in et['props']]
    ver = C('Some', et['version']) if et['version'] else None
    return C('Build_etype', strat, ver)


def ev_term(e):
    return C('Build_mevent', [(k, list(v)) for k, v in e['props'].items()], list(e['parents']), e['tag'])


def result_term(status, obs):
    if status == 'conflict':
        return Raw('(@None mevent)')
    return C('Some', C('Build_mevent', [(k, v) for k, v in obs['props'].items()], obs['parents'], max(obs['tag'], 0)))
