"""C06 — push parsing does not depend on how the byte stream is cut into chunks."""
import io, json, sys
from common.core import Check, C, coq, run_cases, Raw, Nat
from common import gen_doc as G
import ontolib as OL

PID = 'C06'
ANCHORS = ['edxml/parser.py', 'edxml/filter.py']
IMPORTS = 'From EdxmlVerif Require Import Base.Prelude Parse.Chunk.'
FTAG = '{http://f/}note'


def make_doc(rng, kind):
    """returns (children strings, kinds) ; kinds: 'O' | 'E' | 'F'"""
    base = OL.ONTO(object_types=[OL.OT('o')],
                   event_types=[OL.ET('ta', [OL.PROP('p', 'o', optional=True, multivalued=True), OL.PROP('event', 'o', optional=True),
                                             OL.PROP('ontology', 'o', optional=True), OL.PROP('edxml', 'o', optional=True)])],
                   sources=[OL.SOURCE('/s/')])
    more1 = OL.ONTO(object_types=[OL.OT('o'), OL.OT('o2', 'number:int')], event_types=[OL.ET('tb', [OL.PROP('q', 'o2')])], sources=[OL.SOURCE('/s2/')])
    more2 = OL.ONTO(concepts=[OL.CONCEPT('c')], sources=[OL.SOURCE('/s3/')])
    vals = ['x', 'é€', '\U0001f600', 'a b', 'ÿ']
    children, kinds = [OL.onto_xml(base)], ['O']
    n_ev = 0

    def ev(t='ta', s='/s/'):
        nonlocal n_ev
        n_ev += 1
        if t == 'tb':
            return G.event_xml('tb', '/s2/', [('q', str(n_ev))])
        props = [('p', 'e%d' % n_ev), ('p', rng.choice(vals))]
        if kind == 'blank-values':
            props = [('p', rng.choice([' ', '\n ', ' \t ', '  '])), ('p', 'e%d' % n_ev), ('event', rng.choice([' ', '\n']))]
        if rng.random() < 0.5 and kind != 'blank-values':
            props.append((rng.choice(['event', 'ontology', 'edxml']), rng.choice(vals)))
        return G.event_xml('ta', s, props)
    plan = {'single': 'EEE', 'two': 'EOEb', 'three': 'EOEbOE', 'adjacent': 'OOEbE', 'foreign': 'EFEOFb', 'tail-ontology': 'EEO',
            'blank-values': 'EOE', 'tail-text': 'EOEbTET', 'trailing-text': 'EOE', 'two-documents': 'EE'}[kind]
    onts = [more1, more2]
    for ch in plan:
        if ch == 'E':
            children.append(ev())
            kinds.append('E')
        elif ch == 'b':
            children.append(ev('tb'))
            kinds.append('E')
        elif ch == 'O':
            children.append(OL.onto_xml(onts.pop(0)))
            kinds.append('O')
        elif ch == 'T':
            # character data between the children of the root element (belongs to the previous child as its tail)
            children[-1] = children[-1] + rng.choice(['stray text', ' x ', 'text &amp; more'])
        else:
            children.append('<f:note xmlns:f="http://f/" k="v%d">text<f:inner/></f:note>' % len(children))
            kinds.append('F')
    return children, kinds


def trace_of(parser_cls, feed):
    from edxml.error import EDXMLValidationError
    log = []

    class P(parser_cls):
        def _parsed_ontology(self, o):
            super()._parsed_ontology(o)
            log.append(['O', sorted(o.get_event_type_names()), sorted(o.get_object_type_names()), sorted(o.get_event_source_uris()),
                        sorted(o.get_concept_names())])

        def _parsed_event(self, e):
            log.append(['E', e.get_type_name(), e.get_source_uri(), {k: sorted(v) for k, v in e.get_properties().items()}])

        def _parsed_foreign_element(self, el):
            log.append(['F', el.tag, dict(el.attrib)])
    err = None
    try:
        feed(P)
    except EDXMLValidationError as e:
        err = type(e).__name__
    except Exception as e:
        err = 'foreign:' + type(e).__name__
    return log, err


def pull_trace(data, foreign):
    from edxml import EDXMLPullParser
    return trace_of(EDXMLPullParser, lambda P: P().parse(io.BytesIO(data), foreign_element_tags=[FTAG] if foreign else []))


def push_trace(data, cuts, foreign):
    from edxml import EDXMLPushParser

    def feed(P):
        p = P(foreign_element_tags=[FTAG] if foreign else None)
        prev = 0
        for c in cuts:
            if c > prev:
                p.feed(data[prev:c])
            prev = c
    return trace_of(EDXMLPushParser, feed)


def child_offsets(data, children):
    pos, out = 0, []
    for ch in children:
        b = ch.encode()
        at = data.index(b, pos)
        out.append((at + b.index(b'>') + 1, at + len(b)))
        pos = at + len(b)
    return out


def filter_bytes(data, cuts):
    from edxml.filter import EDXMLPullFilter, EDXMLPushFilter
    o1, o2 = io.BytesIO(), io.BytesIO()
    with EDXMLPullFilter(o1) as f:
        f.parse(io.BytesIO(data))
    with EDXMLPushFilter(o2) as f:
        prev = 0
        for c in cuts:
            f.feed(data[prev:c])
            prev = c
    return o1.getvalue(), o2.getvalue()


def classify(data, children, kinds, cut):
    offs = child_offsets(data, children)
    for (st, en), k, i in zip(offs, kinds, range(len(kinds))):
        tag_start = data.rfind(b'<', 0, st)
        if tag_start < cut < en:
            later = 'first' if not any(x == k for x in kinds[:i]) else 'later'
            return 'inside-%s-%s' % (later, {'O': 'ontology', 'E': 'event', 'F': 'foreign'}[k])
    return 'between-children'


def replay(path):
    obj = json.load(open(path))
    if obj.get('kind') != 'failing-input':
        print('replay names a broken obligation:', obj.get('obligation'))
        return 0
    i = obj['input']
    data = i['document'].encode('latin-1')
    pt = pull_trace(data, i['foreign'])
    ps = push_trace(data, i['cuts'], i['foreign'])
    print('pull:', pt[1], len(pt[0]), 'callbacks; push:', ps[1], len(ps[0]), 'callbacks; equal:', pt == ps)
    return 0 if pt == ps else 1


def main(argv):
    if len(argv) > 1 and argv[0] == '--replay':
        return replay(argv[1])
    ck = Check(PID, ANCHORS)
    ck.trusted += ['lxml feed semantics: after feeding up to an offset the tree holds every child whose start tag is complete, end events arrive '
                   'in document order (the take_complete / partial_ontology_visible functions of Parse/Chunk.v)']
    ck.assumptions += ['for foreign elements only tag and attributes are compared (their content at the start event is unspecified)',
                       'foreign elements are not part of the Gallina model']
    ck.prove()
    rng = ck.rng
    terms, metas = [], []
    kinds_list = ['single', 'two', 'three', 'adjacent', 'foreign', 'tail-ontology', 'blank-values', 'tail-text', 'trailing-text', 'two-documents']
    docs = [(k, make_doc(rng, k)) for k in (kinds_list if ck.thorough() else ['two', 'three', 'adjacent', 'foreign', 'blank-values', 'tail-text', 'trailing-text',
                                                                              'two-documents'])]
    REJECTED_AS_A_WHOLE = ('tail-text', 'trailing-text', 'two-documents')      # pull parsing may refuse these: every chunking must then refuse them alike
    seen = 0
    for name, (children, kinds) in docs:
        foreign = 'F' in kinds
        data = G.document(children, extra_ns='')
        if name == 'trailing-text':
            data += b'\n  stray text\n'          # content after the end of the root element
        elif name == 'two-documents':
            data += b'\n' + data
        want = pull_trace(data, foreign)
        if want[1] is not None and name not in REJECTED_AS_A_WHOLE:
            ck.oracle_failures.append({'signature': 'pull-parser-rejects-generated-document/' + name, 'input': {'document': data.decode('latin-1')}, 'observed': want[1]})
            continue
        offs = child_offsets(data, children)
        n = len(data)
        cutsets = [[c, n] for c in range(1, n)]                                    # ALL 2-chunk splits
        cutsets.append(list(range(1, n + 1)))                                      # byte at a time
        for _ in range(ck.budget(60, 1500)):                                       # random k-chunk partitions
            k = rng.randint(2, 12)
            cutsets.append(sorted(rng.sample(range(1, n), k)) + [n])
        for cuts in cutsets:
            got = push_trace(data, cuts, foreign)
            ck.cov['evaluations'] += 1
            ck.dist('doc:' + name)
            ck.dist('chunks:%s' % ('2' if len(cuts) == 2 else 'bytewise' if len(cuts) == n else 'k'))
            if len(cuts) == 2:
                ck.dist('cut:' + classify(data, children, kinds, cuts[0]))
            blank_case = False
            if want[1] is not None and got[1] == want[1] and got[0] == want[0][:len(got[0])]:
                # the document is refused as a whole: how much was delivered before the refusal may depend on when the offending bytes arrive
                continue
            if got != want:
                where = classify(data, children, kinds, cuts[0]) if len(cuts) == 2 else 'multi-chunk'
                failing = got[1] or ('callbacks-differ' if got[0] != want[0] else 'none')
                import re as _re
                blank_cuts = [c for c in cuts[:-1] if _re.search(rb'>[ \t\r\n]+<$', data[:c]) and data[c:c + 1] == b'/']
                if blank_cuts:
                    # chunk ends between a white-space-only value and its end tag: would the remaining cuts alone be harmless?
                    rest = [c for c in cuts if c not in blank_cuts]
                    if push_trace(data, rest, foreign) == want:
                        where, failing, blank_case = 'blank-value-cut-before-end-tag', 'value-dropped', True
                ck.oracle_failures.append({'signature': 'chunking/%s/%s' % (where, failing),
                                           'input': {'document': data.decode('latin-1'), 'cuts': cuts, 'foreign': foreign, 'doc_kind': name},
                                           'observed': 'push: error=%s callbacks=%d; pull: callbacks=%d' % (got[1], len(got[0]), len(want[0]))})
            if not foreign and not blank_case and name not in REJECTED_AS_A_WHOLE and (len(cuts) != 2 or cuts[0] % 7 == 0):
                # correspondence with the model: ids = child index
                ids, oi = [], 0
                model_children = [C('Build_child', C('COnt' if k == 'O' else 'CEv'), i, st, en) for i, (k, (st, en)) in enumerate(zip(kinds, offs))]
                obs = []
                it = iter(i for i, k in enumerate(kinds))
                order = [i for i, k in enumerate(kinds)]
                for cbk, i in zip(got[0], order):
                    obs.append((C('COnt' if cbk[0] == 'O' else 'CEv'), i))
                terms.append(coq((model_children, list(cuts), (obs, got[1] is not None))))
                metas.append({'doc_kind': name, 'cuts': cuts[:6]})
        ck.cov['distinct_nontrivial'] += n - 1
        ck.sample({'doc_kind': name, 'bytes': n, 'children': kinds, 'offsets': offs})
        # filters
        for cuts in ([n // 2, n], [n // 3, 2 * n // 3, n], list(range(1, n + 1))[::97] + [n]):
            if foreign or name in REJECTED_AS_A_WHOLE:
                break          # character data between the children is no EDXML content; whether a filter copies it is not part of the property
            try:
                a, b = filter_bytes(data, cuts)
                ck.cov['evaluations'] += 1
                if a != b:
                    ck.oracle_failures.append({'signature': 'filter-output-differs', 'input': {'document': data.decode('latin-1'), 'cuts': cuts, 'foreign': False},
                                               'observed': 'EDXMLPushFilter output differs from EDXMLPullFilter output'})
            except Exception as e:
                ck.oracle_failures.append({'signature': 'filter-exception/' + type(e).__name__, 'input': {'document': data.decode('latin-1'), 'cuts': cuts, 'foreign': False},
                                           'observed': repr(e)[:200]})
    agree = 'fun c => match c with (doc, cuts, obs) => trace_eqb (push UpToCurrent doc cuts) obs end'
    bad, errs = run_cases(PID, IMPORTS, 'list child * list N * (list cb * bool)', terms, agree, shard=200)
    for i in bad[:10]:
        ck.corr_failures.append({'case': metas[i], 'model': 'push trace differs'})
    for e in errs[:3]:
        ck.corr_failures.append({'coq_error': e})
    ck.cov['traces_validated_against_impl'] = len(terms)
    ck.cov['disagreements_checked'] = len(bad)
    ck.cov['exhaustive'] = True
    ck.cov['rule'] = ('documents with 1-3 ontology elements interleaved with events (properties named event/ontology/edxml, multi-byte values) and '
                      'foreign elements: ALL 2-chunk splits at every byte offset (exhaustive), byte-at-a-time, random 2-12 chunk partitions; push vs '
                      'pull callbacks and push vs pull filter output; non-trivial = every distinct cut offset')
    return ck.finish()


if __name__ == '__main__':
    sys.exit(main(sys.argv[1:]))
