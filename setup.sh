#!/bin/bash
# Offline build of the whole Coq development (full .vo build; never -vos).
set -e
here="$(cd "$(dirname "$0")" && pwd)"
mkdir -p "$here/coq/theories/Generated"
PYTHONPATH="/repo:$here/harness" PYTHONDONTWRITEBYTECODE=1 /venv/bin/python "$here/harness/translate/run_all.py"
cd "$here/coq"
coq_makefile -f _CoqProject -o Makefile
timeout 3000 make -j16
