#!/bin/bash
# Offline build of the whole Coq development (full .vo build; never -vos).
set -e
cd "$(dirname "$0")/coq"
mkdir -p theories/Generated
coq_makefile -f _CoqProject -o Makefile
timeout 3000 make -j16
