#!/venv/bin/python
"""Writes /verif/MANIFEST.json from the table below (one entry per claimed property)."""
import json, os
V = os.path.dirname(os.path.dirname(os.path.abspath(__file__)))
BASE = "cd /repo && /venv/bin/python -m pytest -ra -q -p no:cacheprovider --timeout=900 --continue-on-collection-errors"
TB = ("Trusted: Coq 8.16.1 kernel (vm_compute, no native_compute); no axioms (every theorem 'Closed under the global "
      "context'); the hand-written Gallina model is tied to /repo by a correspondence run (cases.v evaluated by coqc) on "
      "generated inputs; harness generators/oracle; ")
CLAIMED = {
 'C06': dict(
    text="Theorem: for every document (children of any kinds at any byte offsets) and EVERY list of feed offsets that eventually "
         "covers the document (any number of chunks, single bytes, cuts anywhere) the push parser model yields exactly the pull "
         "parser's callbacks in order and no error; no chunking at all makes it fail; the pre-fix validation of the whole root is "
         "refuted with a 2-chunk witness. Tied to the code by feeding generated documents (1-3 ontology elements, events with "
         "properties named event/ontology/edxml, multi-byte values, foreign elements) in ALL 2-chunk splits (exhaustive), "
         "byte-at-a-time and random partitions through EDXMLPushParser vs EDXMLPullParser and the push/pull filters, and by "
         "evaluating the model on the real byte offsets of the children.",
    note=TB + "lxml's feed semantics (which children are in the tree / complete after a feed) is the model's assumption, validated "
         "by the correspondence only; foreign elements are compared by tag and attributes and are not in the Gallina model.",
    technique="Coq proof over all chunkings of a feed model + exhaustive 2-chunk correspondence", ref='5 C06'),
 'C02': dict(
    text="Theorems on a character-level model of lxml's serialisation and of an XML reader (line end normalisation, attribute value "
         "normalisation, predefined and numeric references, illegal code points): for EVERY string, text content and attribute values "
         "are read back exactly as written; the written forms contain no markup start, raw carriage return, quote, raw TAB or LF; a "
         "serialiser without these escapes is refuted. The model is validated against lxml in both directions (escaping of random "
         "strings over every character class; reading of raw texts with references, CR/LF forms and malformed references, agreeing on "
         "syntax errors). Oracle: histories ontology, events, [upgrade of existing definitions with or without additions, events] "
         "through a validating EDXMLWriter (pretty printed or not; EDXMLEvent / EventElement / ParsedEvent inputs; values, attachment "
         "ids and contents, foreign attributes over all legal XML character classes incl. only/leading/trailing whitespace, CR, CRLF, "
         "NEL, markup, references as text; shared attachment ids; parents) parsed back by a validating parser and compared item by "
         "item and in order; pull and push pass-through filters compared for content and byte idempotence; generated rich ontologies.",
    note=TB + "the XML text model describes library behaviour (libxml2) and is tied by correspondence only; the element structure of events "
         "and ontologies on the wire is covered by the oracle here and by the C07 / C08 models, not by this model.",
    technique="Coq proof on a character-level XML escape/read model + bidirectional correspondence with lxml + history round-trip oracle", ref='5 C02'),
 'C08': dict(
    text="The per-attribute codec table of every ontology element class (how an attribute is written, when it is left out, how it is read "
         "back and stored; jointly dropped attribute groups; per-type tables for relations) is DERIVED on every run from the ast of "
         "generate_xml / create_from_xml / __init__ by a fail-closed translator. Theorems on these regenerated tables: for every class "
         "and every definition of the stored shape whose jointly dropped attributes are at their defaults, reading back what was "
         "written gives the definition again (all attribute values, integers of any size via the int() model), the second cycle "
         "writes identical attributes, child order depends on the key set only; the pinned association class (empty display names) "
         "is refuted. Tied further by T2: the stored dictionary, generate_xml output and create_from_xml input of ~1500 real elements "
         "per run against encode/decode of the tables; and an oracle: independent XML-level generator of schema-valid ontologies "
         "(optional attributes absent / present / at default, boundary lengths, whitespace, every relation type, parents, attachments, "
         "associations, version/sequence/timespan), the repository corpus and API-built ontologies, judged by the official RelaxNG "
         "schema, an independent reader, byte identity of the second cycle and ==.",
    note=TB + "the element tree structure beyond attributes (sections, nesting) and lxml's serialisation are covered by the oracle and "
         "correspondence only; relation concept / description / predicate attributes are modelled as written-as-is; constructor "
         "fallbacks for empty strings are outside the model (the schema excludes empty values).",
    technique="Coq proof on codec tables regenerated from the source ast + element-level correspondence + schema/independent-reader oracle", ref='5 C08'),
 'C10': dict(
    text="Theorems, over the same generic node model on which the comparison (C09) is decided: whenever the model accepts a newer object "
         "type / event type definition, every value valid for the old object type is valid for the new one (enum extension, old|more "
         "regex, dropped regex), every event valid under the old (object types, event type) is valid under the upgraded pair - also "
         "along every chain of upgrades -, the sticky-hash pre-image of the event is unchanged and merging any list of old events gives "
         "the same result or the same conflict; the accepted-upgrade facts (no property or attachment removed, new properties optional, "
         "object type and merge strategy frozen, single->multi and mandatory->optional only) are derived from the comparison fold, not "
         "assumed. The pinned enum rule (string prefix) is refuted. Tied to the code by running Ontology.update on every single edit of "
         "the catalogue, random compound edits and chains, comparing its accept/reject decision with the model's, the real "
         "EventValidator verdict on valid and invalid events with the model's validity, hashed properties / merge strategies with the "
         "model's, and for every accepted upgrade re-validating, re-hashing and re-merging every old-valid event.",
    note=TB + "value spaces of non-enum data types and regex matching are parameters of the model (tabulated from an independent "
         "statement for the correspondence); the theorems assume the schema engine reads old|more as an alternation (hypothesis "
         "re_alt) and unique property names (Python dicts).",
    technique="Coq proof of preservation theorems over the shared ontology node model + decision/validity/config correspondence + re-validation oracle", ref='5 C10'),
 'C13': dict(
    text="Theorems over an executable model of normalize_objects (Python values as a sum type, exact rationals for floats, "
         "sign/coefficient/exponent for Decimals): integer types print the canonical rendering of the integer the input denotes "
         "and the gate's own reader gets that integer back; a second pass changes nothing (integers, booleans, base64, strings, "
         "hex); booleans accept only the spellings of true/false and reject everything else; base64 padding completes the length "
         "to a multiple of four and changes nothing else; decimals are exact for every coefficient size when the type keeps enough "
         "digits, otherwise the nearest value (half-even), zero unsigned, and Decimal(text) reads every fixed point output back exactly so "
         "that a second pass changes nothing for every value and 1..5000 fractional digits; the rendering of an integer is the canonical "
         "numeral, so the gate of an integer data type (C03's all-strings theorem) accepts a normalised integer exactly when it is in "
         "range, for every integer; the calendar conversion is the inverse of the ordinal "
         "on all 3652059 days (exhaustive by computation) and an aware datetime is printed as the UTC reading of the same instant. "
         "The pinned behaviours (len%4 padding, garbage->false, untouched offsets) are refuted with witnesses. Tied to the code by "
         "T1 (digit/whitespace tables regenerated from the interpreter, pad/format expressions from the source ast, compared by "
         "reflexivity) and T2: ~4000 (data type, value) cases per run through DataType.normalize_objects vs the model, plus an "
         "oracle with independent denotations (Fraction, datetime arithmetic, ipaddress) demanding the exact expected string, "
         "acceptance by the real EventValidator, idempotence and no laundering of garbage; writer auto-repair and to_edxml_object "
         "paths included.",
    note=TB + "idempotence of float / datetime / IP / geo output and correct rounding of %E are established by the oracle "
         "and correspondence only (not proved); dateutil and IPy are not modelled; Unicode case folding outside ASCII is outside the "
         "model. Open known findings: integer types truncate non-integral floats / Decimals (pinned by a test).",
    technique="Coq proof over an executable normaliser model (incl. exhaustive calendar check) + regenerated tables/source facts + differential correspondence with independent-denotation oracle", ref='5 C13'),
 'C07': dict(
    text="Theorems: for every initial content, both XML backed classes and EVERY sequence of public mutations the calls raise "
         "exactly when the dictionary-of-sets model says, the views show the model's state and the XML element equals the "
         "views (refinement + coherence, by induction over operation sequences); in a heap of events whose update callbacks "
         "are bound to owner objects, the repaired copy() keeps every callback bound to its own event, so operations on one "
         "event never change another (frame theorem); a fresh copy taken at any point of any history shows exactly the content "
         "of its original in its views and in its XML (invariant: every cached view and XML group holds each name once, kept "
         "by all operations and by copying; refuted without it), and every later history of mutations of the copy behaves as "
         "the model run from the original's state; the pre-fix deepcopy is refuted. The model is tied to EDXMLEvent, "
         "EventElement and ParsedEvent by lock-step runs of random and exhaustive short histories (with copies), comparing "
         "mapping view, getters, get_element() and == after every step with an independent Python dictionary-of-sets oracle "
         "and the final state / raise flags with the Gallina models.",
    note=TB + "lxml's element API is represented by the XML-content record; object sets and XML children are compared as sets; "
         "popped elements are taken from the implementation.",
    technique="Coq refinement/invariant proof over a heap model of cached views + lock-step correspondence (vm_compute)", ref='5 C07'),
 'C09': dict(
    text="Theorems over the generic comparison scheme shared by all __cmp__ implementations (rule tables per element kind; the "
         "cosmetic attribute lists and the serialised attribute keys are re-read from the source on every run): for kinds "
         "without children reflexivity, antisymmetry, equal => same version and attributes, and composition of accepted "
         "upgrades (incl. regex-hard and enum extension); for properties and event types reflexivity, antisymmetry and "
         "equal => same parts under well-formedness, and composition of accepted upgrades (properties with their concept "
         "associations unconditionally; event types under the premises that sub-elements carry the event type's version, as "
         "in the code, and that a property's datetime flag follows its object type); the comparison covers every serialised attribute (reflection over the "
         "extracted lists); the pre-fix attachment rule is refuted. Tied to the code by comparing real element instances "
         "(__cmp__, ==, !=, <, >) for all ordered pairs of variants of an ontology (every single edit at 3 versions, compound "
         "edits) with the model, and by an oracle for reflexivity, antisymmetry, equal=>identical XML, composition on all "
         "triples, and purity.",
    note=TB + "composition for whole ontologies is checked by the oracle on triples, not proved; "
         "validate() of operands is assumed to pass; restricted-attribute rules are hand-written (correspondence-checked); "
         "T1 translator harness/translate/c09.py.",
    technique="Coq proof over a generic comparison model with source-extracted rule tables + exhaustive pair correspondence", ref='5 C09'),
 'C11': dict(
    text="Theorems over the update model: for element kinds without children the result of update is the newer definition "
         "(equal to b when b is newer, a itself otherwise), fails exactly on incompatible definitions, is idempotent, "
         "commutes up to equality and never lowers the version; for properties (with concept associations) and event types (with "
         "parent, properties, relations, attachments): when the other definition is a valid upgrade the result takes its version and "
         "attributes, keeps / updates / adopts the children and compares EQUAL to it, otherwise the definition is kept or the update "
         "fails exactly on incompatibility, hence idempotence and monotone versions (premise: child names unique per group); for a whole category of an ontology and ANY element update "
         "function, afterwards A holds exactly the elements of either ontology, updated from their counterpart when both "
         "define them, and the update fails exactly when some pair cannot be updated. Tied to Ontology.update (Ontology "
         "instance and lxml element paths) on directed single-edit scenarios for every edit of the catalogue and random "
         "pairs/chains (value-level model vs. resulting serialisation); oracle: error iff incompatible (independent edit "
         "classification), element-wise newest, idempotent, commutative, monotone versions, B untouched, independence under "
         "later mutation and later in-place upgrades.",
    note=TB + "commutativity for definitions with children is covered by correspondence + oracle, not proved; object "
         "identity (independence) is outside the value-level model and decided by the oracle; 6 open known findings "
         "(adoption by reference, re-pointed event type back references).",
    technique="Coq proof over value-level update model + model/implementation correspondence + history oracle", ref='5 C11'),
 'C12': dict(
    text="Theorem over all ownership structures and all executions of writes / callbacks: when every write is followed by a "
         "callback reaching the same ontology, any write to an element owned by an ontology strictly increases its counter "
         "(hence is_modified_since(v) for every earlier v); the premise is discharged for the code as it is now by reflection "
         "over the mutator table that is re-extracted from the source of all 10 ontology classes on every run (every method "
         "that writes serialised content directly also calls the change callback, none assigns the counter; the one listed "
         "exception is the known finding Ontology.clear). Behavioural tie: every public mutator (enumerated by introspection, "
         "fail-closed curated arguments) is called on own and adopted elements, all histories a;b;a for every pair of mutators "
         "of a class, random histories, and the EventValidator consumer; serialisation before/after vs. get_version().",
    note=TB + "the static classification of T1 is an approximation (direct writes to private fields / container mutations); the "
         "ownership premise (an ontology's serialisation depends only on elements whose owner chain ends in it) is violated by "
         "adoption by reference - open known findings shared with C11; Ontology.clear is an open known finding pinned by a test.",
    technique="Coq soundness theorem + reflection over a source-extracted mutator table + introspective mutator correspondence", ref='5 C12'),
 'C14': dict(
    text="Theorems over the dispatch model for all regex semantics, registration lists and documents (exact callback log, "
         "registry stability, counters, ontology-before-event), refutation theorems for the pre-fix behaviour; model tied to "
         "the code by running both on generated registration sets x documents x pull/push parsers; an independent oracle "
         "evaluates the statement on the implementation and supplies replays.",
    note=TB + "lxml tokenising and event validation are outside the model; Python re.match is tabulated for the model.",
    technique="Coq proof over an executable Gallina model + model/implementation correspondence (vm_compute)", ref='5 C14'),
 'C01': dict(
    text="Theorems over the pre-image model for all event types/events/hash functions/encodings: exact byte layout "
         "(source LF type LF strings joined by 0xFFFFFFFF), the joined strings are the sorted duplicate-free set of "
         "'property:value' strings of hashed properties only, invariance under property/object order, duplicates and non-hashed "
         "content, and correctness of the hashed-property memo over all operation sequences (refuted without the change "
         "callback); conversely the hash input determines source, type and the set of identity strings, and each identity string "
         "its (property, object) pair: UTF-8 is injective and a prefix code on scalar values, LF and the separator 0xFFFFFFFF never "
         "occur inside the parts, so events that differ in identity have different hash inputs. The byte-layout literals are re-read from /repo's source on every run (Generated/C01_gen.v) and the theorems "
         "are re-checked against them; the real hash input is captured through the public hash_function argument for EDXMLEvent, "
         "EventElement and ParsedEvent and compared with the model; an independent Python statement of the spec is the oracle.",
    note=TB + "hashlib/codecs are trusted; 'the hash changes when identity changes' is proved for the hash INPUT (premises: strings "
         "are Unicode scalar values, source URI / type name without LF, property names without colon) and holds for the hash itself up "
         "to collisions of the hash function; T1 translator harness/translate/c01.py.",
    technique="Coq proof over Gallina model with constants regenerated from source (ast) + correspondence on captured hash inputs", ref='5 C01'),
 'C03': dict(
    text="Theorems: history independence of the validator with schema cache for every history of ontology changes and "
         "validations (under C12's counter premise; refuted without it), the interleave matcher of <properties> accepts exactly "
         "by counting (order irrelevant, only declared names, occurrence bounds), exact membership for enum/boolean; for the ten integer data types the schema "
         "accepts, for EVERY string, exactly the canonical ASCII decimal numerals whose value lies in the type range and facets "
         "(theorems on the regular-expression matcher; each run checks by a proved-sound comparison that the schemas translated from "
         "the running code ARE the schemas of these theorems). Value "
         "spaces: on every run the RelaxNG generated by the running code for a catalogue of data types is translated "
         "(every pattern parsed) into terms of a Gallina model of the libxml2 RelaxNG/XSD subset, which is evaluated with "
         "vm_compute and compared with the real verdicts; an independent statement of each value space fixes the expected "
         "verdict of a directed boundary catalogue; verdicts of EventValidator on EDXMLEvent/EventElement/ParsedEvent, "
         "EDXMLEvent.is_valid, EDXMLWriter.add_event and EDXMLPullParser must agree; structural single-fault mutations and "
         "validate/mutate histories with plain and parsed events.",
    note=TB + "outside the integer types no theorem relates the generated patterns to the value spaces for all strings (that "
         "equivalence is checked on the directed catalogue only); the integer theorems assume of the Unicode table that ASCII digits "
         "are Nd and white space is not; float/double/decimal/dateTime/base64Binary lexical spaces are outside the Gallina model "
         "(oracle only); Unicode classes are tabulated by the harness; one open known finding (decimal integer digits).",
    technique="Coq proofs (cache history, interleave = counting) + schema translation validation against libxml2 + value-space oracle", ref='5 C03'),
 'C04': dict(
    text="Theorems over the merge model (for every ordering of the data type's values, every event type and group): per-strategy "
         "laws (match unchanged, add union, min/max extreme, replace highest version, set first non-empty, any one instance), "
         "parents union, the merged event has the same hash input as the instances (via C01's pre-image), objects come from "
         "instances / mandatory stays present / single-valued stays single-valued, conflict iff same version and differing "
         "property; refutation of the pre-fix behaviour. Model tied to EventType.merge_events / resolve_collisions on generated "
         "groups for every strategy x data type x cardinality and the three event classes; independent clause-by-clause oracle "
         "including the real validator and hash.",
    note=TB + "the per-data-type orderings are tabulated by the harness (int, Decimal/Fraction, float, lexicographic) and passed "
         "to the model as ranks; event versions are canonical sequence strings; attachments of later instances are not asserted.",
    technique="Coq proof over Gallina merge model + model/implementation correspondence (vm_compute)", ref='5 C04'),
 'C05': dict(
    text="Theorems: permutation invariance per order-free strategy (add, match under shared hash, min/max under an injective "
         "ordering - refuted without it -, replace under an event version without conflict), duplication law, and the batching "
         "law for EVERY partition of a group into consecutive blocks (merge of partial merges = merge of all), parents "
         "included; and for the executable models of the two stream mergers of edxml-merge: for EVERY buffer size and stream the "
         "logical events of the output of the buffering merger, and the final buffer of the unbuffered merger, are the logical "
         "events of the input (premises: no version property, no replace strategy, at most one object for min/max "
         "properties). Tied to the code by running all permutations (<=120), all consecutive partitions and the one-at-a-time fold "
         "of generated groups through merge_events, and the two stream merger classes of edxml-merge with every buffer size "
         "1..n+1 against executable Gallina stream models.",
    note=TB + "the stream-merger theorems are about the executable stream models, which are tied to the two merger classes by "
         "correspondence for every buffer size 1..n+1; event types with a version property (replace) are covered for the mergers by "
         "correspondence only; ranks "
         "tabulated by the harness; only properties with order-free strategies are compared.",
    technique="Coq proof (permutation/duplication/batching laws) + exhaustive small-scope correspondence on the implementation", ref='5 C05'),
 'C15': dict(
    text="Theorems on a model of the parser's control skeleton (order of the stages per root child, which failure becomes which "
         "exception, when callbacks run; the stages are represented by their results): with validation enabled, for every sequence of "
         "children and whatever the stages report, every invoked callback received an item the gate accepts - also in runs ending in an "
         "error; every error leaving the skeleton is from the EDXML family provided the stages raise nothing else; a run without error "
         "delivered everything in document order; the pinned skeleton (KeyError for a missing event-type, ValueError for version x.0.0, "
         "schema-invalid ontology element reaching the callback) is refuted. T1: the table of raw attribute accesses and int() "
         "conversions on the parsing path with their enclosing try blocks is regenerated from the source ast and checked by reflection. "
         "T2: for thousands of mutated documents the stage results are computed with the real components outside the parser and the "
         "model's callbacks / outcome compared with the real pull parser. Oracle: fault injection (truncation at every prefix offset, bit "
         "flips, splices, inserted markup, every attribute deleted / retyped / renamed / duplicated, unknown attributes, every element "
         "deleted / duplicated / emptied / moved, undefined references; 1-3 faults) through pull and push parser at random chunkings "
         "with a watchdog; delivered items re-validated.",
    note=TB + "that the stages themselves raise only EDXML errors is established by fault injection and the leak-site table, not by proof; "
         "hangs are detected by a wall-clock watchdog; documents with visited tags outside the root are outside the skeleton model.",
    technique="Coq proof on a parser skeleton model + reflected leak-site table regenerated from source + stage-level correspondence + fault-injection oracle", ref='5 C15'),
 'C16': dict(
    text="An executable Gallina model of edxml/template.py (scope splitting, placeholder scanning and parsing, every check of validate, "
         "every formatter of evaluate, the 'a, b and c' joining, sequential replacement, scope collapsing) with library renderings as "
         "parameters. Theorem: for EVERY template, event type and event whose values are valid for the data types the formatters care "
         "about, if the template validates then evaluation does not raise and the caller's property mapping is what it was; lemma: "
         "every placeholder that passed the checks of validate cannot raise (case by case over all formatters); the pinned in-place "
         "float rewriting and the pinned acceptance of curly brackets inside placeholders are refuted. Tied to the code by T2: model "
         "validate vs Template.validate on ~350 generated templates (grammar incl. invalid argument lists, one-fault templates, "
         "unbalanced / damaged ones) and model evaluate vs Template.evaluate on ~1000 (template, event) pairs, exact text. Oracle: no "
         "exception, event unchanged, no unresolved placeholder, text equal to an independent reading of the template semantics.",
    note=TB + "library renderings ('%f' % float, dateutil, strftime, relativedelta) and the geo:point arithmetic are parameters tabulated "
         "from the implementation; set iteration order is supplied to the model; colorize / capitalize are outside the model; that the "
         "result contains no unresolved placeholder and renders every object is established by oracle and correspondence, not proved.",
    technique="Coq proof on an executable template-engine model + exact-output correspondence + independent-semantics oracle", ref='5 C16'),
 'C17': dict(
    text="Theorems on a model of the mediator's bookkeeping (ontology version, registered sources, last written version, closed flag; "
         "the writer represented by its verdict per event) for EVERY history of source registrations, records and close calls and both "
         "settings of ignore_invalid_events: every event in the output is preceded by an ontology item holding its source; only events "
         "the writer accepted are written; without ignore_invalid_events an invalid event ends the run with an error. On a model of "
         "ObjectTranscoder.generate (dotted selectors into nested dictionaries / lists / strings, empty marker elision, boolean "
         "rendering, multi-target property map): every object value of a generated event comes from the record field the property map "
         "names and is not an empty marker of that field; empty markers leaking between fields are refuted. Tied to the code by T2: "
         "600 random records through the real generate vs the model (exact properties), ~100 histories of the real mediator vs the "
         "model's output items. Oracle: histories through ObjectTranscoderMediator in every combination of ignore_invalid_events, "
         "auto-repair normalize/drop, fallback transcoder, file / bytes output; the concatenated output re-parsed by a validating parser "
         "and compared with the events the property map defines.",
    note=TB + "the writer's validation / repair is a verdict in the mediator model (the outcome per record is decided by the harness from the "
         "independent value-space statement; histories depending on repair are judged by the oracle only); the XML transcoder mediator "
         "is not modelled. Open known finding: container-valued fields raise TypeError.",
    technique="Coq proof on mediator bookkeeping + property-map models + record-level and history-level correspondence + re-parse oracle", ref='5 C17'),
 'C20': dict(
    text="Theorems over the rationals on the formulas of the miner (regenerated from the source ast and compared by reflexivity): every "
         "noisy-or combination, the node taint formula exactly as written, a reasoning step and a related-concept confidence stay in "
         "[0,1] for inputs in [0,1], and a reasoning step never exceeds the confidence it started from. On a model of the seed loop "
         "(find_optimal_seed, _set_seed, _update_seed_taints) with the reasoning from one seed as an arbitrary parameter: mining "
         "without a seed terminates within one round per untainted node, afterwards no node is untainted and, from a fresh graph, "
         "every node holds a confidence for some seed (coverage). Tied to the code by T2: the seed order and final taints of the real "
         "graph on ~200 generated documents per run vs the loop model fed with the confidences the implementation assigned. Oracle: "
         "random ontologies / events / min_confidence / max_depth under a watchdog: every confidence range, seeds with confidence 1, "
         "minimum confidence, coverage, universals equal to the pairs in the events, JSON round trip.",
    note=TB + "confidences are rationals in the model and floats in the code; the Dijkstra-style reasoning from one seed (and its own "
         "termination) is not modelled: covered by the oracle and watchdog only. Open known finding: the JSON form omits the "
         "concept naming priority, so titles can change in a round trip (pinned by tests).",
    technique="Coq proof on confidence formulas (regenerated) and the seed loop model + loop correspondence + mining oracle with watchdog", ref='5 C20'),
 'C18': dict(
    text="Theorems over the collection-equivalence model: the verdict is true exactly when ontologies are equal and both "
         "collections have the same hashes with equal merged events (spec), symmetry, reflexivity, equivalence with the "
         "collision-resolved form, never raises on collisions, invariance of the verdict under every reordering of the events of "
         "either collection (premise: merging the instances of a logical event is order free - proved sufficient: no version "
         "property, add / min,max with a separating ordering / other strategies with agreeing instances; refuted without); refutations for the pre-fix code. Tied to "
         "EventCollection.is_equivalent_of in both argument orders on generated collections and all single-difference mutants, "
         "with the expected verdict computed independently from the generator's logical events.",
    note=TB + "invariance under reordering of the OBJECTS inside an event is checked by the oracle on the implementation, not "
         "proved (the model holds objects as sets); sticky hashes are abstract keys; event types restricted to order-free strategies; instances of one logical event "
         "share attachment ids.",
    technique="Coq proof over Gallina model of is_equivalent_of + model/implementation correspondence (vm_compute)", ref='5 C18'),
 'C19': dict(
    text="Theorem over the root-children bookkeeping model for EVERY schedule of 'child received'/'end event processed' "
         "actions (every chunking / reader block size) and every sequence of ontology and event children of any length: "
         "retained <= 3 + undelivered at every callback, del root[1] never fails, <= 2 elements remain at the end; model "
         "tied to the code by comparing len(root) / index of the delivered element observed inside real callbacks (streams "
         "up to 3000 children quick, 15000 thorough; pull, pull-from-file, push in several chunkings).",
    note=TB + "lxml's tree construction order (children appended at start tag, end events in document order) is the model's "
         "schedule assumption; real process memory is not modelled; foreign top-level elements are outside the quantifier.",
    technique="Coq invariant proof over all schedules + model/implementation correspondence (vm_compute)", ref='5 C19'),
}
props = [json.loads(l) for l in open(os.path.join(V, 'properties.jsonl'))]
checks, na = [], []
for p in props:
    pid = p['id']
    if pid in CLAIMED:
        c = CLAIMED[pid]
        checks.append({
            'property_id': pid, 'quick_cmd': './check %s --tier quick' % pid, 'thorough_cmd': './check %s --tier thorough' % pid,
            'evidence_file': 'evidence/%s.json' % pid, 'replay_cmd_template': './check %s --replay {path}' % pid,
            'engine': 'coq-model-correspondence',
            'level_claimed': {'category': 'proof', 'text': c['text'], 'design_ref': 'DESIGN.md section ' + c['ref']},
            'level_note': c['note'], 'technique': c['technique']})
    else:
        na.append({'property_id': pid, 'reason': 'no check registered yet: model/theorems for this property are not built '
                   '(the technique applies; see DESIGN.md section 5 plan)'})
m = {'version': 1, 'setup_cmd': './setup.sh',
     'hooks': {'guard': 'EDXML_SDK_VERIF', 'enable': 'none required: all observations use public API / subclassing; checks export EDXML_SDK_VERIF=1',
               'baseline_off_cmd': BASE, 'source_commits': [], 'add_only': True},
     'engines': [{'name': 'coq-model-correspondence', 'path': 'check', 'serves_properties': sorted(CLAIMED),
                  'kind_free_text': 'Rocq/Coq 8.16.1 theorems over executable Gallina models (coq/theories), tied to /repo on every run by '
                                    'a correspondence check (harness/cNN.py) and an independent property oracle'}],
     'checks': checks, 'not_applicable': na,
     'notes': 'fix: commits in /repo are listed in known_findings.json (status fixed). See DESIGN.md.'}
json.dump(m, open(os.path.join(V, 'MANIFEST.json'), 'w'), indent=1)
print('claimed', sorted(CLAIMED), 'unclaimed', len(na))
