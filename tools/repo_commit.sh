#!/bin/bash
# usage: repo_commit.sh "fix: message"  — commit the working tree of /repo only if the pinned suite still passes
out=$(/venv/bin/python /verif/tools/baseline.py 2>&1 | tail -3)
echo "$out"
echo "$out" | grep -q "regressions=0" || { echo "NOT committed (regressions)"; exit 1; }
git -C /repo commit -qam "$1" && git -C /repo log --oneline | head -1
