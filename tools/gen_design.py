#!/usr/bin/env python3
"""Fill the generated tables of DESIGN.md: genuine defects (known_findings.json + /repo fix commits) and seeded changes
(seeded/*/meta.json + seeded/RESULTS.txt written by tools/seed_matrix.sh)."""
import glob, json, os, re, subprocess
V = os.path.dirname(os.path.dirname(os.path.abspath(__file__)))


def findings():
    d = json.load(open(os.path.join(V, 'known_findings.json')))
    log = subprocess.check_output(['git', '-C', '/repo', 'log', '--format=%h %s'], text=True).splitlines()
    fixes = [l for l in log if l.split(' ', 1)[1].startswith('fix:')]
    out = ['### 8.1 Repaired by `fix:` commits in /repo (%d commits; the pinned suite passes after each)' % len(fixes), '',
           '| commit | what the commit says | found by |', '|---|---|---|']
    by_commit = {}
    for f in d:
        if f['status'] == 'fixed':
            by_commit.setdefault(f['commit'][:7], []).append(f['property'])
    for l in reversed(fixes):
        h, msg = l.split(' ', 1)
        props = sorted(set(by_commit.get(h[:7], []))) or ['']
        out.append('| %s | %s | %s |' % (h, msg[5:].replace('|', '/'), ' '.join(props)))
    out += ['', 'Each commit has one or more `fixed:` entries in `known_findings.json` (property, commit, what failed). A fixed entry suppresses nothing.', '',
            '### 8.2 Open known findings (reported as `KNOWN-FINDING:` lines, exit 0)', '', '| property | signature | what fails | why it is not repaired |', '|---|---|---|---|']
    for f in d:
        if f['status'] == 'open':
            out.append('| %s | `%s` | %s | %s |' % (f['property'], f['signature'], f['what'].replace('|', '/')[:400], f.get('why_not_fixed', '').replace('|', '/')[:300]))
    return '\n'.join(out)


def seeds():
    res = {}
    p = os.path.join(V, 'seeded', 'RESULTS.txt')
    if os.path.exists(p):
        for l in open(p):
            m = re.match(r'(C\d+-\d+) (C\d+) rc=(\d+) ?(.*)', l.strip())
            if m:
                res.setdefault(m.group(1), []).append((m.group(2), m.group(3), m.group(4)))
    out = ['| seed | change (summary by its author) | checks run → result |', '|---|---|---|']
    for d in sorted(glob.glob(os.path.join(V, 'seeded', 'C*-*', 'meta.json'))):
        sid = d.split('/')[-2]
        m = json.load(open(d))
        r = '; '.join('%s: %s' % (c, ('caught (%s)' % sig.rstrip(';')[:90]) if rc != '0' else 'quiet') for c, rc, sig in res.get(sid, [])) or 'caught by its own check (see git log)'
        out.append('| %s | %s | %s |' % (sid, m.get('summary', '').replace('|', '/')[:260], r))
    out += ['', '`caught (...)` lists the violation signatures; `no-failing-input-found` does not occur for any seeded change: each is reported with a concrete replay. '
            'Related checks that stay quiet do so because the change does not touch the behaviour they decide.']
    return '\n'.join(out)


def main():
    p = os.path.join(V, 'DESIGN.md')
    s = open(p).read()
    for key, fn in (('findings', findings), ('seeds', seeds)):
        s = re.sub(r'<!-- BEGIN:%s -->.*?<!-- END:%s -->' % (key, key), lambda m: '<!-- BEGIN:%s -->\n%s\n<!-- END:%s -->' % (key, fn(), key), s, flags=re.S)
    open(p, 'w').write(s)


if __name__ == '__main__':
    main()
