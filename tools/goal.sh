#!/bin/bash
# usage: goal.sh <file.v> <line>  — compile a copy truncated before <line> with "Show." appended, print goals
f="$1"; n="$2"
tmp=/var/tmp/goal_$$.v
head -n $((n-1)) "$f" > $tmp
echo "Show." >> $tmp
cd /verif/coq && timeout 120 coqc -q -Q theories EdxmlVerif -w -all $tmp 2>&1 | grep -v "^File\|Error: There are pending\|^$" | head -${3:-60}
rm -f $tmp /var/tmp/goal_$$.*
