#!/bin/bash
# usage: seed_matrix.sh [PID-k ...]  — run every kept seeded change against the quick check of its own property (and of the
# related properties listed in seeded/RELATED) and record exit code + violation signatures in seeded/RESULTS.json
cd /verif
seeds="$@"; [ -z "$seeds" ] && seeds=$(ls seeded | grep -E '^C[0-9]+-[0-9]+$')
[ -z "$(git -C /repo status --porcelain)" ] || { echo "/repo not clean"; exit 2; }
for s in $seeds; do
  pid=${s%%-*}
  related=$(grep "^$s " seeded/RELATED 2>/dev/null | cut -d' ' -f2-)
  git -C /repo apply "/verif/seeded/$s/patch.diff" || { echo "$s: patch does not apply"; continue; }
  for c in $pid $related; do
    out=$(./check $c 2>&1); rc=$?
    sigs=$(echo "$out" | grep VIOLATION | sed 's/.*replay=[^ ]*\/C[0-9]*-//; s/-[0-9]*\.json//' | sort -u | head -4 | tr '\n' ';')
    echo "$s $c rc=$rc $sigs"
  done
  git -C /repo checkout -- .
done
