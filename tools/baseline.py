#!/venv/bin/python
"""Run the pinned baseline suite in a given checkout of edxml/sdk and compare with
/root/.vp/BASELINE.json.  usage: baseline.py [repo_dir]   exit 0 iff every stable_pass test passes."""
import json, os, subprocess, sys, tempfile, xml.etree.ElementTree as ET
repo = os.path.abspath(sys.argv[1]) if len(sys.argv) > 1 else '/repo'
b = json.load(open('/root/.vp/BASELINE.json'))
with tempfile.TemporaryDirectory(dir='/var/tmp') as d:
    j = os.path.join(d, 'j.xml')
    env = dict(os.environ, PYTHONPATH=repo, PYTHONHASHSEED='0')
    env.pop('EDXML_SDK_VERIF', None)
    subprocess.run(['/venv/bin/python', '-m', 'pytest', '-q', '-p', 'no:cacheprovider', '--timeout=900',
                    '--continue-on-collection-errors', '--junitxml=' + j], cwd=repo, env=env,
                   stdout=subprocess.DEVNULL, stderr=subprocess.DEVNULL)
    passed = set()
    for tc in ET.parse(j).iter('testcase'):
        if not any(c.tag in ('failure', 'error', 'skipped') for c in tc):
            passed.add(tc.get('classname') + '::' + tc.get('name'))
missing = sorted(set(b['stable_pass']) - passed)
print('stable_pass=%d passed_now=%d regressions=%d' % (len(b['stable_pass']), len(passed), len(missing)))
for m in missing[:20]:
    print('  REGRESSION', m)
sys.exit(1 if missing else 0)
