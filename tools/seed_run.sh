#!/bin/bash
# usage: seed_run.sh <PID-k> [check ids...]  — apply a kept seeded change to /repo, run the checks, undo it.
s="/verif/seeded/$1"; shift
[ -z "$(git -C /repo status --porcelain)" ] || { echo "/repo not clean"; exit 2; }
git -C /repo apply "$s/patch.diff" || exit 2
trap 'git -C /repo checkout -- . ' EXIT
for c in "$@"; do
  out=$(cd /verif && ./check $c 2>&1); rc=$?
  echo "== $(basename $s) check $c: exit $rc"; echo "$out" | grep -E "VIOLATION|KNOWN-FINDING|^C[0-9]+:" | cut -c1-220 | head -12
done
