#!/bin/bash
# run every registered quick check (sequentially, they share the Coq build directory) and print one line each
cd /verif
for id in $(/venv/bin/python -c "import json;print(' '.join(c['property_id'] for c in json.load(open('MANIFEST.json'))['checks']))"); do
  out=$(VERIF_SEED=${VERIF_SEED:-0} ./check $id 2>&1); rc=$?
  echo "$id rc=$rc $(echo "$out" | grep -c VIOLATION) violations | $(echo "$out" | tail -1 | cut -c1-150)"
done
