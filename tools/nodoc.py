#!/venv/bin/python
"""print a python file (or selected functions/classes) without docstrings: nodoc.py file [name ...]"""
import ast, sys
src = open(sys.argv[1]).read()
tree = ast.parse(src)
names = set(sys.argv[2:])
class Strip(ast.NodeTransformer):
    def generic(self, node):
        self.generic_visit(node)
        if node.body and isinstance(node.body[0], ast.Expr) and isinstance(getattr(node.body[0], 'value', None), ast.Constant) and isinstance(node.body[0].value.value, str):
            node.body = node.body[1:] or [ast.Pass()]
        return node
    visit_FunctionDef = visit_ClassDef = visit_AsyncFunctionDef = generic
tree = Strip().visit(tree)
if not names:
    print(ast.unparse(tree))
else:
    for n in ast.walk(tree):
        if isinstance(n, (ast.FunctionDef, ast.ClassDef)) and n.name in names:
            print(ast.unparse(n)); print()
