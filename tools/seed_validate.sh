#!/bin/bash
# usage: seed_validate.sh <PID> <k>   — validate /tmp/seed/out/PID/k against /repo HEAD in a scratch worktree,
# and, when everything is confirmed, keep it as /verif/seeded/PID-k/.
pid="$1"; k="$2"; src="/tmp/seed/out/$pid/$k"; wt="/var/tmp/seedval.$pid.$k"
[ -f "$src/patch.diff" ] || { echo "no patch $src"; exit 2; }
git -C /repo worktree remove --force "$wt" 2>/dev/null; rm -rf "$wt"
git -C /repo worktree add -q --detach "$wt" HEAD || exit 2
cleanup() { git -C /repo worktree remove --force "$wt" 2>/dev/null; rm -rf "$wt"; }
trap cleanup EXIT
cd /tmp
PYTHONPATH="$wt" PYTHONHASHSEED=0 timeout 300 /venv/bin/python "$src/demo.py" >/dev/null 2>&1; clean_rc=$?
git -C "$wt" apply "$src/patch.diff" || { echo "$pid-$k: patch does not apply to current HEAD"; exit 3; }
PYTHONPATH="$wt" PYTHONHASHSEED=0 timeout 300 /venv/bin/python "$src/demo.py" >/dev/null 2>&1; mut_rc=$?
/verif/tools/baseline.py "$wt" > /var/tmp/seedval.$pid.$k.log 2>&1; suite_rc=$?
echo "$pid-$k: demo clean rc=$clean_rc, demo mutated rc=$mut_rc, suite rc=$suite_rc ($(head -1 /var/tmp/seedval.$pid.$k.log))"
rm -f /var/tmp/seedval.$pid.$k.log
if [ $clean_rc -eq 0 ] && [ $mut_rc -ne 0 ] && [ $suite_rc -eq 0 ]; then
  d="/verif/seeded/$pid-$k"; mkdir -p "$d"
  cp "$src/patch.diff" "$src/demo.py" "$d/"
  /venv/bin/python - "$src/meta.json" "$d/meta.json" <<'P'
import json,sys,subprocess
m=json.load(open(sys.argv[1]))
m['validated']={'repo_head':subprocess.check_output(['git','-C','/repo','rev-parse','--short','HEAD'],text=True).strip(),
  'ran':['demo.py on clean worktree: exit 0','demo.py with patch: exit non-zero','pinned suite with patch: all 1112 stable tests pass']}
json.dump(m,open(sys.argv[2],'w'),indent=1)
P
  echo "  kept as $d"
else
  echo "  NOT kept"; exit 1
fi
